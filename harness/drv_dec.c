// Black-box decoder driver (public API only).
//  dec <kind> <flags> <mode> <seed> <memlimit> <hex>      (mode + 16: first use the coder partially, then re-initialise it on the same lzma_stream)
//   kind: 0 stream_decoder  1 stream_decoder_mt  2 auto_decoder  3 alone_decoder  4 lzip_decoder
//         7 index_decoder (input = an Index field; output = the decoded Index re-encoded)  10 index_encoder (of the Index in the input)
//         5 raw LZMA2 (flags = dict size)  6 stream_buffer_decode  7 microlzma (n/a)
//   mode: 0 one call  1 one input byte per call  2 one output byte per call  3 random chunks + empty calls
//         4 two pieces split at <seed>   7 everything offered with LZMA_RUN, LZMA_FINISH once nothing is left
//   ret 94: LZMA_BUF_ERROR although unconsumed input and free output space were both available
//  -> "<ret> <total_in> <total_out> <calls> <hexout>"
// LZMA_FINISH is used once all input has been handed over.
#include "lzma.h"
#include <stdio.h>
#include <stdlib.h>
#include <string.h>
#include <stdint.h>
#include <unistd.h>
#include "watchdog.h"

static int hexv(int c) { return c <= '9' ? c - '0' : (c | 32) - 'a' + 10; }
static uint64_t rng_s;
static uint32_t rnd(void) { rng_s = rng_s * 6364136223846793005ULL + 1442695040888963407ULL; return (uint32_t)(rng_s >> 33); }
#define OUTCAP (24u << 20)

int main(void)
{
	static char line[1 << 25];
	uint8_t *in = malloc(1 << 24), *out = malloc(OUTCAP);
	while (fgets(line, sizeof line, stdin)) {
		unsigned kind, flags, mode; unsigned long long seed, memlimit; int off = 0;
		char fstr[512]; lzma_filter sf[LZMA_FILTERS_MAX + 1]; int have_sf = 0;
		unsigned long long mcomp = 0, muncomp = 0; unsigned mexact = 0, mdict = 0;
		if (!strncmp(line, "decs ", 5)) {
			// decs <filterstring> <mode> <seed> <hex>: raw decoder with the chain given as text
			if (sscanf(line, "decs %511s %u %llu %n", fstr, &mode, &seed, &off) < 3) { printf("ERR\n"); fflush(stdout); continue; }
			for (char *p = fstr; *p; p++) if (*p == '+') *p = ' ';
			int epos = 0; if (lzma_str_to_filters(fstr, &epos, sf, LZMA_STR_ALL_FILTERS, NULL)) { printf("STRERR\n"); fflush(stdout); continue; }
			have_sf = 1; kind = 8; flags = 0; memlimit = 0;
			memmove(line + 0, line + off, strlen(line + off) + 1); off = 0; goto parsed;
		}
		if (!strncmp(line, "decm ", 5)) {
			// decm <comp_size> <uncomp_size> <exact> <dict> <mode> <seed> <hex>: MicroLZMA
			if (sscanf(line, "decm %llu %llu %u %u %u %llu %n", &mcomp, &muncomp, &mexact, &mdict, &mode, &seed, &off) < 6) { printf("ERR\n"); fflush(stdout); continue; }
			kind = 9; flags = 0; memlimit = 0;
			memmove(line + 0, line + off, strlen(line + off) + 1); off = 0; goto parsed;
		}
		if (sscanf(line, "dec %u %u %u %llu %llu %n", &kind, &flags, &mode, &seed, &memlimit, &off) < 5) { printf("ERR\n"); fflush(stdout); continue; }
	parsed:;
		char *h = line + off; size_t n = 0;
		if (*h != '-') while (h[0] && h[1] && h[0] != '\n' && h[0] != ' ') { in[n++] = (uint8_t)(hexv(h[0]) << 4 | hexv(h[1])); h += 2; } else h++;
		// optional second hex field: the input of the earlier use in a re-initialisation history (mode + 16)
		static uint8_t in2[1 << 20]; size_t n2 = 0;
		if (*h == ' ') { h++; while (h[0] && h[1] && h[0] != '\n' && n2 < sizeof in2) { in2[n2++] = (uint8_t)(hexv(h[0]) << 4 | hexv(h[1])); h += 2; } }
		rng_s = seed * 2654435761u + 1;
		lzma_stream s = LZMA_STREAM_INIT; lzma_ret r; lzma_index *idx7 = NULL;
		if (memlimit == 0) memlimit = UINT64_MAX;
		lzma_options_lzma ol; lzma_lzma_preset(&ol, 0); ol.dict_size = flags;
		lzma_filter f2[2] = {{LZMA_FILTER_LZMA2, &ol}, {LZMA_VLI_UNKNOWN, NULL}};
		// in a re-initialisation history with its own earlier input the earlier use may have had other flags (checks ignored,
		// not concatenated ...): nothing of them may survive the re-initialisation
		const unsigned flags_now = flags;
		if (mode >= 16 && n2) flags ^= ((seed >> 5) & 1 ? 0x10u : 0) ^ ((seed >> 6) & 1 ? 0x08u : 0) ^ ((seed >> 7) & 1 ? 0x01u : 0);
		lzma_mt mt = { .flags = flags, .threads = 1 + (unsigned)(seed % 4), .timeout = (seed / 4) % 2 ? 0 : ((seed / 8) % 2 ? 1 : 3), .memlimit_threading = memlimit, .memlimit_stop = memlimit };
		if (kind == 6) {
			uint64_t ml = memlimit; size_t ip = 0, op = 0;
			r = lzma_stream_buffer_decode(&ml, flags, NULL, in, &ip, n, out, &op, OUTCAP);
			printf("%d %zu %zu 1 ", (int)r, ip, op);
			if (!op) printf("-"); for (size_t i = 0; i < op; i++) printf("%02x", out[i]);
			printf("\n"); fflush(stdout); continue;
		}
		switch (kind) {
		case 0: r = lzma_stream_decoder(&s, memlimit, flags); break;
		case 1: r = lzma_stream_decoder_mt(&s, &mt); break;
		case 2: r = lzma_auto_decoder(&s, memlimit, flags); break;
		case 3: r = lzma_alone_decoder(&s, memlimit); break;
		case 4: r = lzma_lzip_decoder(&s, memlimit, flags); break;
		case 5: r = lzma_raw_decoder(&s, f2); break;
		case 7: r = lzma_index_decoder(&s, &idx7, memlimit); break;
		case 10: { uint64_t ml = UINT64_MAX; size_t p0 = 0; r = lzma_index_buffer_decode(&idx7, &ml, NULL, in, &p0, n);
			if (r == LZMA_OK) { r = lzma_index_encoder(&s, idx7); n = 0; } break; }
		case 8: r = lzma_raw_decoder(&s, sf); break;
		case 9: r = lzma_microlzma_decoder(&s, mcomp, muncomp, mexact, mdict); break;
		default: r = LZMA_PROG_ERROR;
		}
		flags = flags_now; mt.flags = flags_now;
		if (r != LZMA_OK) { printf("%d 0 0 0 -\n", (int)r); fflush(stdout); lzma_end(&s); lzma_index_end(idx7, NULL); continue; }
		if (mode >= 16 && kind <= 4) {
			// re-initialisation history: decode part of the same input (small output buffers so that
			// finished output stays queued), abandon it, initialise again on the same lzma_stream
			mode -= 16; alarm(kind == 1 ? 25 : 120);
			unsigned k = 1 + rnd() % 25; size_t pip = 0; uint8_t tmp[8192];
			const uint8_t *pin = n2 ? in2 : in; size_t pn = n2 ? n2 : n;
			size_t stop = pn ? (n2 && rnd() % 2 ? pn : rnd() % (pn + 1)) : 0; if (n2 && stop == pn) k = 100000;
			for (unsigned c = 0; c < k && pip < stop; c++) {
				size_t il = rnd() % 3 == 0 ? stop - pip : rnd() % 5000; if (il > stop - pip) il = stop - pip;
				size_t ol = rnd() % 4 == 0 ? sizeof tmp : rnd() % 300;
				uint8_t *ib = malloc(il ? il : 1); memcpy(ib, pin + pip, il);
				s.next_in = ib; s.avail_in = il; s.next_out = tmp; s.avail_out = ol ? ol : (n2 ? 1 : 0);
				lzma_ret pr = lzma_code(&s, LZMA_RUN);
				pip += il - s.avail_in; free(ib);
				if (pr != LZMA_OK && pr != LZMA_BUF_ERROR && pr != LZMA_NO_CHECK && pr != LZMA_UNSUPPORTED_CHECK && pr != LZMA_GET_CHECK) break;
			}
			if (rnd() % 3 == 0) usleep(rnd() % 400);
			switch (kind) {
			case 0: r = lzma_stream_decoder(&s, memlimit, flags); break;
			case 1: r = lzma_stream_decoder_mt(&s, &mt); break;
			case 2: r = lzma_auto_decoder(&s, memlimit, flags); break;
			case 3: r = lzma_alone_decoder(&s, memlimit); break;
			case 4: r = lzma_lzip_decoder(&s, memlimit, flags); break;
			}
			if (r != LZMA_OK) { printf("%d 0 0 0 -\n", (int)r); fflush(stdout); lzma_end(&s); alarm(0); continue; }
		}
		size_t ip = 0, op = 0; unsigned calls = 0; int stall = 0, finishing = 0, idle = 0;
		alarm(kind == 1 ? 25 : 120);
		if (mode == 6) {
			// early lzma_end: give the coder part of the input and very little output space, so that (for the threaded
			// decoder) workers are in the middle of their Blocks, then free it at once
			size_t stop = n ? (size_t)(seed % (n + 1)) : 0; unsigned k = 1 + rnd() % 6; uint8_t small[8];
			for (unsigned c = 0; c < k && ip < stop; c++) {
				size_t il = stop - ip; uint8_t *ib = malloc(il ? il : 1); memcpy(ib, in + ip, il);
				s.next_in = ib; s.avail_in = il; s.next_out = small; s.avail_out = rnd() % 8;
				r = lzma_code(&s, LZMA_RUN); ip += il - s.avail_in; free(ib);
				if (r != LZMA_OK && r != LZMA_BUF_ERROR) break;
			}
			if (rnd() % 2) usleep(rnd() % 300);
			lzma_end(&s);
			printf("55 %zu 0 0 -\n", ip); fflush(stdout);
			if (have_sf) lzma_filters_free(sf, NULL);
			continue;
		}
		int e1 = -1, e2 = -1;
		if (mode == 5) {
			// stall history: offer the first <seed> bytes, then call twice with nothing new (the first such call must
			// return LZMA_OK, the second LZMA_BUF_ERROR, neither is fatal), then continue normally with the rest
			size_t stop = seed < n ? (size_t)seed : n; unsigned g = 0; int stalled = 0;
			while (stop > 0 && g++ < 100000) {
				size_t il = stop - ip; uint8_t *ib = malloc(il ? il : 1); memcpy(ib, in + ip, il);
				s.next_in = ib; s.avail_in = il; s.next_out = out + op; s.avail_out = OUTCAP - op;
				r = lzma_code(&s, LZMA_RUN);
				size_t di = il - s.avail_in, dd = (OUTCAP - op) - s.avail_out; ip += di; op += dd; calls++; free(ib);
				if (r == LZMA_NO_CHECK || r == LZMA_UNSUPPORTED_CHECK || r == LZMA_GET_CHECK) continue;
				if (r == LZMA_OK && di == 0 && dd == 0) stalled = 1;
				if (r != LZMA_OK || (di == 0 && dd == 0) || ip == stop) break;
			}
			if (stop == 0) r = LZMA_OK;
			if (r == LZMA_OK && ip == stop && !stalled) {
				// everything offered was taken; drain what can still be produced without input
				for (g = 0; g < 100000; g++) {
					s.next_in = in; s.avail_in = 0; s.next_out = out + op; s.avail_out = OUTCAP - op;
					r = lzma_code(&s, LZMA_RUN); size_t dd = (OUTCAP - op) - s.avail_out; op += dd; calls++;
					if (r == LZMA_NO_CHECK || r == LZMA_UNSUPPORTED_CHECK || r == LZMA_GET_CHECK) { r = LZMA_OK; continue; }
					if (r != LZMA_OK || dd == 0) break;
				}
				// that last call made no progress: it was the first stalled call
				if (r == LZMA_OK) {
					e1 = 0;
					s.next_in = in; s.avail_in = 0; s.next_out = out + op; s.avail_out = OUTCAP - op;
					e2 = (int)lzma_code(&s, LZMA_RUN); op += (OUTCAP - op) - s.avail_out; calls++;
					r = LZMA_OK;
				} else if (r == LZMA_BUF_ERROR) { e1 = 10; r = LZMA_OK; }
			}
			mode = 0;
			if (r != LZMA_OK) goto report;
		}
		while (1) {
			size_t il, ol;
			switch (mode) {
			case 0: il = n - ip; ol = OUTCAP - op; break;
			case 1: il = (n - ip) ? 1 : 0; ol = 1 << 16; break;   // ample for one input byte; a 24 MiB buffer per call made ASan runs 100x slower
			case 2: il = n - ip; ol = 1; break;
			case 4: il = (ip < seed && seed < n) ? seed - ip : n - ip; ol = 1 << 18; break;
			case 7: il = n - ip; ol = 1 << 16; break;   // all remaining input offered with LZMA_RUN; LZMA_FINISH only once nothing is left (reader that learns about EOF late)
			default: il = rnd() % 7 == 0 ? 0 : rnd() % 37; ol = rnd() % 7 == 0 ? 0 : rnd() % 53;
			         if (rnd() % 11 == 0) il = n; if (rnd() % 13 == 0) ol = 70000; break;
			}
			if (il > n - ip || finishing) il = n - ip;
			if (ol > OUTCAP - op) ol = OUTCAP - op;
			// exact-size heap copies so that ASan sees the true bounds of both buffers
			uint8_t *ib = malloc(il ? il : 1), *ob = malloc(ol ? ol : 1);
			memcpy(ib, in + ip, il);
			s.next_in = ib; s.avail_in = il; s.next_out = ob; s.avail_out = ol;
			lzma_action a = (ip + il == n) ? LZMA_FINISH : LZMA_RUN;
			if (mode == 7 && il > 0) a = LZMA_RUN;
			if (a == LZMA_FINISH) finishing = 1;
			r = lzma_code(&s, a);
			size_t di = il - s.avail_in, dd = ol - s.avail_out;
			memcpy(out + op, ob, dd);
			ip += di; op += dd; calls++;
			if (getenv("VERIF_TRACE")) fprintf(stderr, "call %u a=%d il=%zu ol=%zu -> r=%d di=%zu dd=%zu\n", calls, (int)a, il, ol, (int)r, di, dd);
			free(ib); free(ob);
			if (r == LZMA_BUF_ERROR && kind <= 4 && s.avail_in > 0 && s.avail_out > 0) { r = 94; break; }   // told "cannot progress" although input and output space were both there
			if (r == LZMA_BUF_ERROR) {
				// not fatal: only conclusive once everything was offered
				if (a == LZMA_FINISH && il == n - ip + di && ol > 0) break;
				if (++stall > 50) break;
				continue;
			}
			if (r == LZMA_NO_CHECK || r == LZMA_UNSUPPORTED_CHECK || r == LZMA_GET_CHECK) { r = LZMA_OK; continue; }
			if (r != LZMA_OK) break;
			// a caller that offers nothing new must be told (BUF_ERROR) after finitely many calls
			if (di == 0 && dd == 0 && (il == n - ip) && finishing) { if (++idle > (kind == 1 ? 150 : 3000)) { r = 98; break; } } else idle = 0;
			if (calls > 80000000) { r = 99; break; }
		}
	report:
		if (kind == 7 && r == LZMA_STREAM_END && idx7) {
			// the decoded Index, re-encoded, stands for the result
			op = 0; if (lzma_index_buffer_encode(idx7, out, &op, OUTCAP) != LZMA_OK) op = 0;
		}
		printf("%d %llu %llu %u ", (int)r, (unsigned long long)s.total_in, (unsigned long long)s.total_out, calls);
		if (!op) printf("-"); for (size_t i = 0; i < op; i++) printf("%02x", out[i]);
		if (e1 >= 0) printf(" S%d,%d", e1, e2);
		printf("\n"); fflush(stdout);
		lzma_end(&s);
		if (kind == 10 || (kind == 7 && r == LZMA_STREAM_END)) lzma_index_end(idx7, NULL);
		if (have_sf) lzma_filters_free(sf, NULL);
	}
	free(in); free(out);
	return 0;
}
