// Encoder action histories:  flush <kind> <cfg> <fstr|-> <script> <hex>
//   kind 0 easy_encoder 1 stream_encoder_mt 3 raw_encoder(fstr) 4 stream_encoder(fstr) 2 alone
//   script: semicolon-separated steps  R<n> | S<n> | F<n> | B<n> | U<filter string with + for space>
//           (n = number of NEW input bytes handed over before/with that action); a final FINISH is implied
//   output slicing: seed-driven
//  -> "<final ret> | step results 'A:<action>:<in_total>:<out_total>:<ret>' ... | <hexout>"
#include "lzma.h"
#include <stdio.h>
#include <stdlib.h>
#include <string.h>
#include <stdint.h>
#include <unistd.h>
#include "watchdog.h"
static int hexv(int c) { return c <= '9' ? c - '0' : (c | 32) - 'a' + 10; }
static uint64_t rng_s;
static uint32_t rnd(void) { rng_s = rng_s * 6364136223846793005ULL + 1442695040888963407ULL; return (uint32_t)(rng_s >> 33); }
#define OUTCAP (16u << 20)
int main(void)
{
	static char line[1 << 24], script[1 << 16], fstr[512];
	uint8_t *in = malloc(1 << 23), *out = malloc(OUTCAP);
	while (fgets(line, sizeof line, stdin)) {
		unsigned kind, cfg; unsigned long long seed; int off = 0;
		if (sscanf(line, "flush %u %u %llu %511s %65535s %n", &kind, &cfg, &seed, fstr, script, &off) < 5) { printf("ERR\n"); fflush(stdout); continue; }
		char *h = line + off; size_t n = 0;
		if (*h != '-') while (h[0] && h[1] && h[0] != '\n') { in[n++] = (uint8_t)(hexv(h[0]) << 4 | hexv(h[1])); h += 2; }
		for (char *p = fstr; *p; p++) if (*p == '+') *p = ' ';
		rng_s = seed + 3; alarm(20);
		uint32_t preset = (cfg & 0x1F); lzma_check check = (lzma_check)((cfg >> 8) & 15);
		lzma_filter filters[LZMA_FILTERS_MAX + 1]; int have_f = 0;
		if (strcmp(fstr, "-")) { int ep = 0; if (lzma_str_to_filters(fstr, &ep, filters, LZMA_STR_ALL_FILTERS, NULL)) { printf("STRERR\n"); fflush(stdout); continue; } have_f = 1; }
		lzma_options_lzma ol; lzma_lzma_preset(&ol, preset);
		lzma_stream s = LZMA_STREAM_INIT; lzma_ret r = LZMA_PROG_ERROR;
		lzma_mt mt = { .threads = 1 + ((cfg >> 12) & 7), .block_size = (uint64_t)((cfg >> 20) & 0xFF) * 4096, .timeout = ((cfg >> 16) & 1) ? 2 : 0,
			.preset = preset, .filters = have_f ? filters : NULL, .check = check };
		switch (kind) {
		case 0: r = lzma_easy_encoder(&s, preset, check); break;
		case 1: r = lzma_stream_encoder_mt(&s, &mt); break;
		case 2: r = lzma_alone_encoder(&s, &ol); break;
		case 3: r = have_f ? lzma_raw_encoder(&s, filters) : LZMA_PROG_ERROR; break;
		case 4: r = have_f ? lzma_stream_encoder(&s, filters, check) : LZMA_PROG_ERROR; break;
		}
		printf("%d |", (int)r);
		size_t ip = 0, op = 0;
		if (r == LZMA_OK) {
			char *save = NULL; int dead = 0; size_t owed = 0;   // a byte that was offered in a T step and not taken yet: the next action offers it again
			for (char *st = strtok_r(script, ";", &save); ; st = strtok_r(NULL, ";", &save)) {
				int last = (st == NULL);
				char act = last ? 'E' : st[0];
				if (act == 'U') {
					char fs2[512]; snprintf(fs2, sizeof fs2, "%s", st + 1); for (char *p = fs2; *p; p++) if (*p == '+') *p = ' ';
					lzma_filter nf[LZMA_FILTERS_MAX + 1]; int ep = 0;
					if (lzma_str_to_filters(fs2, &ep, nf, LZMA_STR_ALL_FILTERS, NULL)) { printf(" U:strerr"); continue; }
					lzma_ret ur = lzma_filters_update(&s, nf); printf(" U:%d", (int)ur); lzma_filters_free(nf, NULL); continue;
				}
				if (act == 'T') {
					// one lzma_code(LZMA_RUN) call with one input byte on offer and exactly <j> bytes of output space: leaves the
					// encoder wherever that gets it (e.g. inside a partly written Block Header); what follows (an update
					// request, more input) must still lead to a valid stream
					size_t olen = (size_t)strtoul(st + 1, NULL, 10), il = n - ip ? 1 : 0; if (olen > OUTCAP - op) olen = OUTCAP - op;
					uint8_t *ib = malloc(il ? il : 1), *ob = malloc(olen ? olen : 1); memcpy(ib, in + ip, il);
					s.next_in = ib; s.avail_in = il; s.next_out = ob; s.avail_out = olen;
					lzma_ret tr = lzma_code(&s, LZMA_RUN);
					size_t di = il - s.avail_in, dd = olen - s.avail_out; memcpy(out + op, ob, dd); ip += di; op += dd; free(ib); free(ob);
					if (il && !di) owed = 1; else owed = 0;
					printf(" T:%d", (int)tr);
					if (tr != LZMA_OK && tr != LZMA_BUF_ERROR) { r = tr; break; }
					continue;
				}
				size_t add = last ? n - ip : (size_t)strtoul(st + 1, NULL, 10);
				if (add < owed) add = owed; owed = 0;
				if (add > n - ip) add = n - ip;
				lzma_action a = act == 'R' ? LZMA_RUN : act == 'S' ? LZMA_SYNC_FLUSH : act == 'F' ? LZMA_FULL_FLUSH : act == 'B' ? LZMA_FULL_BARRIER : LZMA_FINISH;
				size_t target = ip + add; int guard = 0, bufs = 0;
				lzma_ret cr = LZMA_OK;
				// for RUN hand the bytes over (possibly in pieces); for flush actions all pending input must be given at once
				while (1) {
					if (a == LZMA_RUN && ip == target) break;
					size_t il = target - ip;
					if (a == LZMA_RUN && rnd() % 3 == 0 && il > 1) il = 1 + rnd() % il;
					size_t olen = rnd() % 5 == 0 ? 0 : 1 + rnd() % 3000; if (olen > OUTCAP - op) olen = OUTCAP - op;
					uint8_t *ib = malloc(il ? il : 1), *ob = malloc(olen ? olen : 1); memcpy(ib, in + ip, il);
					s.next_in = ib; s.avail_in = il; s.next_out = ob; s.avail_out = olen;
					cr = lzma_code(&s, a == LZMA_RUN ? LZMA_RUN : a);
					// a flush action in progress must see the same avail_in on the next call: keep unconsumed bytes pending by re-offering exactly them
					size_t di = il - s.avail_in, dd = olen - s.avail_out;
					memcpy(out + op, ob, dd); ip += di; op += dd; free(ib); free(ob);
					if (a != LZMA_RUN) target = ip + (il - di);  // pending stays identical
					// LZMA_BUF_ERROR is legitimate after two calls that could not move anything (e.g. two zero-size output
					// buffers in a row); only a long unbroken series of them means the coder is stuck
					if (cr == LZMA_BUF_ERROR) { if (++bufs > 200) break; continue; }
					if (di || dd) bufs = 0;
					if (cr != LZMA_OK) break;
					if (a == LZMA_RUN && ip == target) break;
					if (++guard > 40000000) { cr = 99; break; }
				}
				printf(" A:%c:%zu:%zu:%d", act, ip, op, (int)cr);
				if (last || (cr != LZMA_OK && cr != LZMA_STREAM_END)) { r = cr; break; }
				if (a == LZMA_RUN && cr == LZMA_STREAM_END) { r = cr; break; }
			}
			(void)dead;
		}
		printf(" | "); if (!op) printf("-"); for (size_t i = 0; i < op; i++) printf("%02x", out[i]); printf("\n"); fflush(stdout);
		lzma_end(&s); alarm(0); if (have_f) lzma_filters_free(filters, NULL);
	}
	free(in); free(out); return 0;
}
