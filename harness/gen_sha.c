// Translator helper: prints SHA256_K[64] and the initial state of
// lzma_sha256_init as the current source defines them.
#include "sha256.c"
#include <stdio.h>
int main(void)
{
	for (int i = 0; i < 64; i++) printf("%u ", SHA256_K[i]);
	printf("\n");
	lzma_check_state st;
	lzma_sha256_init(&st);
	for (int i = 0; i < 8; i++) printf("%u ", st.state.sha256.state[i]);
	printf("\n");
	return 0;
}
