// Allocation failures in operations on live objects (C10): filter-chain updates of running encoders,
// index manipulation, filter-chain helpers.  One failing allocation (the k-th of the operation under
// test), then the objects are used further: a failed operation must leave them as they were.
//  upd <variant> <failk> <seed> <hex>  -> "<update_ret> <allocs_in_update> <final_ret> <decodes_to_input> <live> <bad_free> <n_updates_ok>"
//  idx <op> <m> <failk>                -> "<ret> <allocs_in_op> <unchanged> <live> <bad_free>"
//  flt <op> <failk> <filter string>    -> "<ret> <allocs_in_op> <caller_objects_unchanged> <live> <bad_free>"
//  buf <which> <failk> <bad> <hex>     -> same; which: 0 stream_buffer_encode 1 raw_buffer_encode 2 block_buffer_encode 3 easy_buffer_encode
//                                         4 stream_buffer_decode 5 raw_buffer_decode 6 block_buffer_decode; bad=1: options that must be refused
#include "lzma.h"
#include <stdio.h>
#include <stdlib.h>
#include <string.h>
#include <stdint.h>
#include <unistd.h>
#include <pthread.h>
#include "watchdog.h"
static int hexv(int c) { return c <= '9' ? c - '0' : (c | 32) - 'a' + 10; }

#define MAXLIVE 65536
static struct { void *p; size_t sz; } live[MAXLIVE];
static size_t nlive, live_bytes, n_allocs, fail_k, bad_free;
static pthread_mutex_t mu = PTHREAD_MUTEX_INITIALIZER;
static void *my_alloc(void *opaque, size_t nmemb, size_t size)
{
	pthread_mutex_lock(&mu);
	size_t k = ++n_allocs;
	if (fail_k && k == fail_k) { pthread_mutex_unlock(&mu); return NULL; }
	size_t sz = nmemb * size;
	void *p = malloc(sz ? sz : 1);
	if (p && nlive < MAXLIVE) { live[nlive].p = p; live[nlive].sz = sz; nlive++; live_bytes += sz; }
	pthread_mutex_unlock(&mu);
	return p;
}
static void my_free(void *opaque, void *ptr)
{
	if (!ptr) return;
	pthread_mutex_lock(&mu);
	size_t i; for (i = 0; i < nlive; i++) if (live[i].p == ptr) break;
	if (i == nlive) { bad_free++; pthread_mutex_unlock(&mu); return; }
	live_bytes -= live[i].sz; live[i] = live[--nlive];
	pthread_mutex_unlock(&mu);
	free(ptr);
}
static lzma_allocator al = { my_alloc, my_free, NULL };
static size_t allocs_now(void) { pthread_mutex_lock(&mu); size_t k = n_allocs; pthread_mutex_unlock(&mu); return k; }
static void set_fail(size_t k) { pthread_mutex_lock(&mu); fail_k = k ? n_allocs + k : 0; pthread_mutex_unlock(&mu); }

static uint8_t outbuf[1 << 22], decbuf[1 << 22];

// drive lzma_code with `action` until it returns something else than LZMA_OK
static lzma_ret drive(lzma_stream *s, const uint8_t *in, size_t n, lzma_action action, size_t *op)
{
	s->next_in = in; s->avail_in = n; lzma_ret r; unsigned guard = 0;
	do {
		s->next_out = outbuf + *op; s->avail_out = sizeof outbuf - *op;
		r = lzma_code(s, action);
		*op = (size_t)(s->next_out - outbuf);
	} while (r == LZMA_OK && (action != LZMA_RUN || s->avail_in) && ++guard < 1000000);
	return r;
}

static void do_upd(unsigned variant, size_t failk, unsigned seed, const uint8_t *in, size_t n)
{
	lzma_options_lzma o1, o2; lzma_lzma_preset(&o1, 0); o1.dict_size = 1 << 16; o2 = o1;
	lzma_options_delta od = { .type = LZMA_DELTA_TYPE_BYTE, .dist = 3 };
	lzma_options_bcj ob = { .start_offset = 0 };
	lzma_filter f1[3] = { { LZMA_FILTER_LZMA2, &o1 }, { LZMA_VLI_UNKNOWN, NULL }, { LZMA_VLI_UNKNOWN, NULL } };
	lzma_filter fn[4];
	switch (variant) {
	case 1: o2.lc = 1; o2.lp = 2; o2.pb = 0; fn[0] = (lzma_filter){ LZMA_FILTER_LZMA2, &o2 }; fn[1] = (lzma_filter){ LZMA_VLI_UNKNOWN, NULL }; break;
	case 2: fn[0] = (lzma_filter){ LZMA_FILTER_DELTA, &od }; fn[1] = (lzma_filter){ LZMA_FILTER_LZMA2, &o2 }; fn[2] = (lzma_filter){ LZMA_VLI_UNKNOWN, NULL }; break;
	default: o2.lc = 1; fn[0] = (lzma_filter){ LZMA_FILTER_X86, &ob }; fn[1] = (lzma_filter){ LZMA_FILTER_DELTA, &od }; fn[2] = (lzma_filter){ LZMA_FILTER_LZMA2, &o2 }; fn[3] = (lzma_filter){ LZMA_VLI_UNKNOWN, NULL }; break;
	}
	lzma_stream s = LZMA_STREAM_INIT; s.allocator = &al;
	lzma_mt mt = { .threads = 2, .block_size = 4096, .filters = f1, .check = LZMA_CHECK_CRC32 };
	lzma_ret r = variant == 2 ? lzma_stream_encoder_mt(&s, &mt) : lzma_stream_encoder(&s, f1, LZMA_CHECK_CRC64);
	if (r != LZMA_OK) { printf("INITERR %d\n", (int)r); lzma_end(&s); return; }
	size_t op = 0, half = n / 2, upd_ok = 0; lzma_ret ru = LZMA_OK; size_t a0, a1;
	lzma_action fl = variant == 1 ? LZMA_SYNC_FLUSH : (seed & 1 ? LZMA_FULL_BARRIER : LZMA_FULL_FLUSH);
	if (variant != 3) { r = drive(&s, in, half, fl, &op); if (r != LZMA_STREAM_END) { printf("FLUSHERR %d\n", (int)r); lzma_end(&s); return; } }
	else half = 0;
	if (variant == 4) { ru = lzma_filters_update(&s, fn); if (ru == LZMA_OK) upd_ok++; o2.lc = 2; }   // a successful update first
	a0 = allocs_now(); set_fail(failk);
	ru = lzma_filters_update(&s, fn);
	set_fail(0); a1 = allocs_now(); if (ru == LZMA_OK) upd_ok++;
	// the encoder must go on (with the new chain if the update succeeded, with the old one otherwise)
	size_t third = half + (n - half) / 2;
	r = drive(&s, in + half, third - half, LZMA_RUN, &op);
	if (r == LZMA_OK) r = drive(&s, in + third, n - third, LZMA_FINISH, &op);
	lzma_end(&s);
	int match = 0;
	if (r == LZMA_STREAM_END) {
		uint64_t ml = UINT64_MAX; size_t ip = 0, dp = 0;
		lzma_ret dr = lzma_stream_buffer_decode(&ml, 0, NULL, outbuf, &ip, op, decbuf, &dp, sizeof decbuf);
		match = dr == LZMA_OK && ip == op && dp == n && memcmp(decbuf, in, n) == 0;
	}
	printf("%d %zu %d %d %zu %zu %zu\n", (int)ru, a1 - a0, (int)r, match, live_bytes, bad_free, upd_ok);
}

// serialise what the index says (everything a caller can observe cheaply)
static uint32_t idx_digest(const lzma_index *i)
{
	static uint8_t buf[1 << 20]; size_t p = 0;
	uint32_t c = 0;
	uint64_t v[8] = { lzma_index_block_count(i), lzma_index_stream_count(i), lzma_index_size(i), lzma_index_stream_size(i),
		lzma_index_total_size(i), lzma_index_file_size(i), lzma_index_uncompressed_size(i), lzma_index_checks(i) };
	c = lzma_crc32((const uint8_t *)v, sizeof v, c);
	if (lzma_index_stream_count(i) == 1 && lzma_index_buffer_encode(i, buf, &p, sizeof buf) == LZMA_OK) c = lzma_crc32(buf, p, c);
	lzma_index_iter it; lzma_index_iter_init(&it, i);
	while (!lzma_index_iter_next(&it, LZMA_INDEX_ITER_BLOCK)) {
		uint64_t w[6] = { it.stream.number, it.block.number_in_file, it.block.compressed_file_offset, it.block.uncompressed_file_offset, it.block.unpadded_size, it.block.uncompressed_size };
		c = lzma_crc32((const uint8_t *)w, sizeof w, c);
	}
	return c;
}

static lzma_index *mk_index(unsigned m, unsigned salt, int flags)
{
	lzma_index *i = lzma_index_init(&al); if (!i) return NULL;
	lzma_stream_flags sf = { .version = 0, .backward_size = LZMA_BACKWARD_SIZE_MIN, .check = LZMA_CHECK_CRC32 };
	if (flags) lzma_index_stream_flags(i, &sf);
	for (unsigned k = 0; k < m; k++) if (lzma_index_append(i, &al, 100 + ((k + salt) % 7) * 4, 1000 + k) != LZMA_OK) { lzma_index_end(i, &al); return NULL; }
	return i;
}

static void do_idx(unsigned op, unsigned m, size_t failk)
{
	lzma_index *A = mk_index(m, 0, op != 3 && op != 6), *B = mk_index(3 + m % 600, 5, 1), *D = NULL;   // a decoded Index carries no Stream Flags
	if (!A || !B) { printf("SETUPERR\n"); return; }
	unsigned extra = 0;
	if (op <= 2 && (m % 3) != 0) {
		// several Streams in A (concatenated indexes): the Stream and Record-group trees have more than one node
		for (unsigned q = 0; q < 1 + m % 3; q++) { lzma_index *X = mk_index(2 + q + (m % 5 == 0 ? 600 : 0), 9 + q, q & 1); if (!X || lzma_index_cat(A, X, &al) != LZMA_OK) { printf("SETUPERR\n"); return; } extra += 2 + q + (m % 5 == 0 ? 600 : 0); }
	}
	uint32_t dA = idx_digest(A), dB = idx_digest(B);
	static uint8_t enc[1 << 20]; size_t ep = 0;
	lzma_index_buffer_encode(A, enc, &ep, sizeof enc);
	lzma_ret r = LZMA_OK; int unchanged = 1; size_t a0 = allocs_now();
	set_fail(failk);
	switch (op) {
	case 0: r = lzma_index_append(A, &al, 104, 77); break;
	case 1: r = lzma_index_cat(A, B, &al); if (r == LZMA_OK) B = NULL; break;
	case 2: D = lzma_index_dup(A, &al); r = D ? LZMA_OK : LZMA_MEM_ERROR; break;
	case 3: { uint64_t ml = UINT64_MAX; size_t ip = 0; r = lzma_index_buffer_decode(&D, &ml, &al, enc, &ip, ep); if (r != LZMA_OK && D) unchanged = 0; break; }
	case 4: D = lzma_index_init(&al); r = D ? LZMA_OK : LZMA_MEM_ERROR; break;
	case 5: { lzma_stream s = LZMA_STREAM_INIT; s.allocator = &al; r = lzma_index_encoder(&s, A);
		if (r == LZMA_OK) { static uint8_t ob[1 << 20]; s.next_out = ob; s.avail_out = sizeof ob; r = lzma_code(&s, LZMA_RUN); if (r == LZMA_STREAM_END) r = (s.total_out == ep && !memcmp(ob, enc, ep)) ? LZMA_OK : LZMA_DATA_ERROR; }
		lzma_end(&s); break; }
	case 6: { lzma_stream s = LZMA_STREAM_INIT; s.allocator = &al; uint64_t ml = UINT64_MAX; r = lzma_index_decoder(&s, &D, ml);
		if (r == LZMA_OK) { s.next_in = enc; s.avail_in = ep; r = lzma_code(&s, LZMA_RUN); if (r == LZMA_STREAM_END) r = LZMA_OK; else if (D) unchanged = 0; }
		lzma_end(&s); break; }
	}
	set_fail(0); size_t a1 = allocs_now();
	if (r != LZMA_OK) { if (idx_digest(A) != dA) unchanged = 0; if (B && idx_digest(B) != dB) unchanged = 0; }
	else {
		// success: the result must be the one the operation defines
		if ((op == 2 || op == 3 || op == 6) && (!D || idx_digest(D) != dA)) unchanged = 0;
		if (op == 0 && lzma_index_block_count(A) != m + extra + 1) unchanged = 0;
		if (op == 1 && lzma_index_block_count(A) != m + extra + 3 + m % 600) unchanged = 0;
	}
	// the objects must still be usable
	if (lzma_index_append(A, &al, 108, 5) != LZMA_OK) unchanged = 0;
	lzma_index_end(A, &al); lzma_index_end(B, &al); lzma_index_end(D, &al);
	printf("%d %zu %d %zu %zu\n", (int)r, a1 - a0, unchanged, live_bytes, bad_free);
}

static void do_flt(unsigned op, size_t failk, const char *str)
{
	lzma_filter f[LZMA_FILTERS_MAX + 1], g[LZMA_FILTERS_MAX + 1], sentinel[LZMA_FILTERS_MAX + 1];
	int ep = 0, unchanged = 1; int ret = 0; size_t a0, a1;
	memset(sentinel, 0x5A, sizeof sentinel);
	if (op == 0) {
		memcpy(f, sentinel, sizeof f);
		a0 = allocs_now(); set_fail(failk);
		const char *e = lzma_str_to_filters(str, &ep, f, LZMA_STR_ALL_FILTERS, &al);
		set_fail(0); a1 = allocs_now(); ret = e ? 5 : 0;
		if (e) { if (memcmp(f, sentinel, sizeof f)) unchanged = 0; }
		else lzma_filters_free(f, &al);
		printf("%d %zu %d %zu %zu\n", ret, a1 - a0, unchanged, live_bytes, bad_free); return;
	}
	if (lzma_str_to_filters(str, &ep, f, LZMA_STR_ALL_FILTERS, &al)) { printf("STRERR\n"); return; }
	a0 = allocs_now();
	switch (op) {
	case 1: {
		memcpy(g, sentinel, sizeof g); set_fail(failk);
		lzma_ret r = lzma_filters_copy(f, g, &al); set_fail(0); ret = (int)r;
		if (r != LZMA_OK) { if (memcmp(g, sentinel, sizeof g)) unchanged = 0; } else lzma_filters_free(g, &al);
		break; }
	case 2: {
		char *out = (char *)sentinel; set_fail(failk);
		lzma_ret r = lzma_str_from_filters(&out, f, LZMA_STR_ENCODER, &al); set_fail(0); ret = (int)r;
		if (r != LZMA_OK) { if (out != NULL) unchanged = 0; } else my_free(NULL, out);
		break; }
	case 3: {
		// Block Header round trip with the decoder's allocations failing: block.filters must come back empty
		lzma_block b; memset(&b, 0, sizeof b); b.version = 1; b.check = LZMA_CHECK_CRC32; b.filters = f;
		b.compressed_size = LZMA_VLI_UNKNOWN; b.uncompressed_size = LZMA_VLI_UNKNOWN;
		uint8_t hdr[LZMA_BLOCK_HEADER_SIZE_MAX];
		if (lzma_block_header_size(&b) != LZMA_OK || lzma_block_header_encode(&b, hdr) != LZMA_OK) { ret = 77; break; }
		lzma_block d; memset(&d, 0, sizeof d); d.version = 1; d.check = LZMA_CHECK_CRC32; d.header_size = lzma_block_header_size_decode(hdr[0]);
		memcpy(g, sentinel, sizeof g); d.filters = g; set_fail(failk);
		lzma_ret r = lzma_block_header_decode(&d, &al, hdr); set_fail(0); ret = (int)r;
		if (r != LZMA_OK) { for (int k = 0; k <= LZMA_FILTERS_MAX; k++) if (g[k].id != LZMA_VLI_UNKNOWN || g[k].options != NULL) unchanged = 0; }
		else lzma_filters_free(g, &al);
		break; }
	case 4: {
		// Filter Flags of the first filter: encode, decode with failing allocations
		uint8_t buf[64]; size_t p = 0, q = 0; uint32_t sz = 0;
		if (lzma_filter_flags_size(&sz, &f[0]) != LZMA_OK || lzma_filter_flags_encode(&f[0], buf, &p, sizeof buf) != LZMA_OK) { ret = 77; break; }
		lzma_filter one = { 0x5A5A, (void *)sentinel }; set_fail(failk);
		lzma_ret r = lzma_filter_flags_decode(&one, &al, buf, &q, p); set_fail(0); ret = (int)r;
		if (r != LZMA_OK) { if (one.options != NULL && one.options != (void *)sentinel) unchanged = 0; } else my_free(NULL, one.options);
		break; }
	}
	a1 = allocs_now();
	lzma_filters_free(f, &al);
	printf("%d %zu %d %zu %zu\n", ret, a1 - a0, unchanged, live_bytes, bad_free);
}

// single-call ("buffer") functions with the k-th allocation failing, or with options they must refuse: the positions the
// caller passed in (*in_pos, *out_pos) and the output pointer (*i for the Index decoder) must be what they were
static void do_buf(unsigned which, size_t failk, unsigned bad, const uint8_t *in, size_t n)
{
	lzma_options_lzma o; lzma_lzma_preset(&o, 0); o.dict_size = 1 << 16; if (bad) { o.lc = 3; o.lp = 3; }   // lc + lp > 4: refused
	lzma_options_delta od = { .type = LZMA_DELTA_TYPE_BYTE, .dist = 2 };
	lzma_filter f[3] = { { LZMA_FILTER_DELTA, &od }, { LZMA_FILTER_LZMA2, &o }, { LZMA_VLI_UNKNOWN, NULL } };
	static uint8_t enc[1 << 20], outb[1 << 20];
	// a valid encoded form of the input for the decoder cases (made without failures)
	size_t el = 0; lzma_options_lzma og; lzma_lzma_preset(&og, 0); og.dict_size = 1 << 16;
	lzma_filter fg[3] = { { LZMA_FILTER_DELTA, &od }, { LZMA_FILTER_LZMA2, &og }, { LZMA_VLI_UNKNOWN, NULL } };
	lzma_block bg; memset(&bg, 0, sizeof bg); bg.version = 1; bg.check = LZMA_CHECK_CRC32; bg.filters = fg;
	switch (which) {
	case 4: if (lzma_stream_buffer_encode(fg, LZMA_CHECK_CRC32, NULL, in, n, enc, &el, sizeof enc) != LZMA_OK) { printf("SETUPERR\n"); return; } break;
	case 5: if (lzma_raw_buffer_encode(fg, NULL, in, n, enc, &el, sizeof enc) != LZMA_OK) { printf("SETUPERR\n"); return; } break;
	case 6: if (lzma_block_buffer_encode(&bg, NULL, in, n, enc, &el, sizeof enc) != LZMA_OK) { printf("SETUPERR\n"); return; } break;
	}
	const size_t ip0 = 3, op0 = 7; size_t ip = ip0, op = op0; lzma_ret r = LZMA_PROG_ERROR; int same = 1;
	lzma_block b; memset(&b, 0, sizeof b); b.version = 1; b.check = LZMA_CHECK_CRC32; b.filters = f;
	size_t a0 = allocs_now(); set_fail(failk);
	switch (which) {
	case 0: r = lzma_stream_buffer_encode(f, LZMA_CHECK_CRC32, &al, in, n, outb, &op, sizeof outb); break;
	case 1: r = lzma_raw_buffer_encode(f, &al, in, n, outb, &op, sizeof outb); break;
	case 2: r = lzma_block_buffer_encode(&b, &al, in, n, outb, &op, sizeof outb); break;
	case 3: r = bad ? LZMA_OPTIONS_ERROR : lzma_easy_buffer_encode(1, LZMA_CHECK_CRC64, &al, in, n, outb, &op, sizeof outb); break;
	case 4: { uint64_t ml = UINT64_MAX; static uint8_t sh[1 << 20]; memcpy(sh + ip0, enc, el); r = lzma_stream_buffer_decode(&ml, 0, &al, sh, &ip, ip0 + el, outb, &op, sizeof outb); break; }
	case 5: { static uint8_t sh[1 << 20]; memcpy(sh + ip0, enc, el); r = lzma_raw_buffer_decode(f, &al, sh, &ip, ip0 + el, outb, &op, sizeof outb); break; }
	case 6: { static uint8_t sh[1 << 20]; memcpy(sh + ip0, enc, el); b = bg; b.filters = bad ? f : fg; b.header_size = lzma_block_header_size_decode(enc[0]);
		lzma_filter df[LZMA_FILTERS_MAX + 1]; lzma_block d; memset(&d, 0, sizeof d); d.version = 1; d.check = LZMA_CHECK_CRC32; d.filters = df; d.header_size = b.header_size;
		if (lzma_block_header_decode(&d, NULL, enc) != LZMA_OK) { r = (lzma_ret)77; break; }
		if (bad) { ((lzma_options_lzma *)df[1].options)->lc = 3; ((lzma_options_lzma *)df[1].options)->lp = 3; }
		ip = ip0 + d.header_size; size_t ipb = ip;
		r = lzma_block_buffer_decode(&d, &al, sh, &ip, ip0 + el, outb, &op, sizeof outb);
		if (r != LZMA_OK && ip != ipb) same = 0; ip = r == LZMA_OK ? ip : ip0;
		lzma_filters_free(df, NULL); break; }
	}
	set_fail(0); size_t a1 = allocs_now();
	if (r != LZMA_OK && (ip != ip0 || op != op0)) same = 0;
	if (r == LZMA_OK && which <= 3 && op == op0) same = 0;
	printf("%d %zu %d %zu %zu\n", (int)r, a1 - a0, same, live_bytes, bad_free);
}

int main(void)
{
	static char line[1 << 23]; static uint8_t in[1 << 22];
	while (fgets(line, sizeof line, stdin)) {
		nlive = 0; live_bytes = n_allocs = bad_free = 0; fail_k = 0; alarm(60);
		unsigned a, b; unsigned long long k; int off = 0;
		if (sscanf(line, "upd %u %llu %u %n", &a, &k, &b, &off) >= 3) {
			size_t n = 0; for (char *h = line + off; h[0] && h[1] && h[0] != '\n'; h += 2) in[n++] = (uint8_t)(hexv(h[0]) << 4 | hexv(h[1]));
			do_upd(a, (size_t)k, b, in, n);
		} else if (sscanf(line, "idx %u %u %llu", &a, &b, &k) == 3) do_idx(a, b, (size_t)k);
		else if (sscanf(line, "buf %u %llu %u %n", &a, &k, &b, &off) >= 3) {
			size_t n = 0; for (char *h = line + off; h[0] && h[1] && h[0] != '\n'; h += 2) in[n++] = (uint8_t)(hexv(h[0]) << 4 | hexv(h[1]));
			do_buf(a, (size_t)k, b, in, n);
		} else if (sscanf(line, "flt %u %llu %n", &a, &k, &off) >= 2) { char *nl = strchr(line + off, '\n'); if (nl) *nl = 0; do_flt(a, (size_t)k, line + off); }
		else printf("ERR\n");
		alarm(0); fflush(stdout);
	}
	return 0;
}
