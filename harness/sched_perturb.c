// Schedule perturbation for the threaded coders: liblzma is built with
// -Dpthread_mutex_lock=verif_mutex_lock ... (all calls go through
// src/common/mythread.h), and these wrappers yield / sleep pseudo-randomly
// (seeded by VERIF_SCHED_SEED) around every synchronisation call.
#define _GNU_SOURCE
#include <pthread.h>
#include <sched.h>
#include <stdint.h>
#include <stdlib.h>
#include <unistd.h>
#include <time.h>
static __thread uint64_t st;
volatile unsigned long verif_sync_calls;   // progress indicator for harness/watchdog.h
static uint64_t seed0(void) { static uint64_t s; static int init; if (!init) { const char *e = getenv("VERIF_SCHED_SEED"); s = e ? strtoull(e, NULL, 10) : 0; init = 1; } return s; }
static void perturb(void)
{
	__atomic_fetch_add(&verif_sync_calls, 1, __ATOMIC_RELAXED);
	if (!seed0()) return;
	if (!st) st = seed0() * 0x9E3779B97F4A7C15ULL ^ (uint64_t)(uintptr_t)&st;
	st ^= st << 13; st ^= st >> 7; st ^= st << 17;
	unsigned r = (unsigned)(st >> 33) % 100;
	if (r < 25) sched_yield();
	else if (r < 33) { struct timespec ts = {0, (long)((st >> 20) % 300000)}; nanosleep(&ts, NULL); }
}
int verif_mutex_lock(pthread_mutex_t *m) { perturb(); return pthread_mutex_lock(m); }
int verif_mutex_unlock(pthread_mutex_t *m) { int r = pthread_mutex_unlock(m); perturb(); return r; }
int verif_cond_wait(pthread_cond_t *c, pthread_mutex_t *m) { perturb(); return pthread_cond_wait(c, m); }
int verif_cond_timedwait(pthread_cond_t *c, pthread_mutex_t *m, const struct timespec *t) { perturb(); return pthread_cond_timedwait(c, m, t); }
int verif_cond_signal(pthread_cond_t *c) { perturb(); int r = pthread_cond_signal(c); perturb(); return r; }
