// White-box driver for BCJ + delta filters.
//  code <arch> <enc> <now_pos> <pm> <pp> <hex>      -> "<processed> <hex> <pm> <pp>"  (direct *_code call)
//  stream <arch> <enc> <start_offset> <seed> <hex>  -> "<ret> <hex>"  (through simple_coder, random slicing, mock tail coder)
//  oneshot <arch> <enc> <start_offset> <hex>        -> "<processed> <hex>" (public lzma_bcj_*; x86, arm64, riscv)
//  delta <enc> <dist> <seed> <hex>                  -> "<hex>" (encoder: streaming coder; decoder: decode_buffer in random chunks)
#include "x86.c"
#include "arm.c"
#include "armthumb.c"
#include "arm64.c"
#include "powerpc.c"
#include "ia64.c"
#include "sparc.c"
#include "riscv.c"
#include "delta_encoder.c"
#define decode_buffer delta_decode_buffer
#include "delta_decoder.c"
#include <stdio.h>
#include <unistd.h>
#include <stdlib.h>
#include <string.h>
#include "watchdog.h"

static int hexv(int c) { return c <= '9' ? c - '0' : (c | 32) - 'a' + 10; }
static size_t unhex(const char *h, uint8_t *buf) {
	size_t n = 0;
	if (*h == '-') return 0;
	while (h[0] && h[1] && h[0] != '\n' && h[0] != ' ') { buf[n++] = (uint8_t)(hexv(h[0]) << 4 | hexv(h[1])); h += 2; }
	return n;
}
static void puthex(const uint8_t *b, size_t n) { if (!n) printf("-"); for (size_t i = 0; i < n; i++) printf("%02x", b[i]); }

static uint64_t rng_s;
static uint32_t rnd(void) { rng_s = rng_s * 6364136223846793005ULL + 1442695040888963407ULL; return (uint32_t)(rng_s >> 33); }

typedef size_t (*codefn)(void *, uint32_t, bool, uint8_t *, size_t);
typedef lzma_ret (*initfn)(lzma_next_coder *, const lzma_allocator *, const lzma_filter_info *);

static int arch_of(const char *a) {
	const char *names[] = {"x86","arm","armthumb","arm64","powerpc","ia64","sparc","riscv"};
	for (int i = 0; i < 8; i++) if (!strcmp(a, names[i])) return i;
	return -1;
}

// mock last coder: copies input to output, STREAM_END at FINISH when all copied
static lzma_ret mock_code(void *c, const lzma_allocator *a, const uint8_t *restrict in, size_t *restrict in_pos,
		size_t in_size, uint8_t *restrict out, size_t *restrict out_pos, size_t out_size, lzma_action action) {
	lzma_bufcpy(in, in_pos, in_size, out, out_pos, out_size);
	return (action == LZMA_FINISH && *in_pos == in_size) ? LZMA_STREAM_END : LZMA_OK;
}
static void mock_end(void *c, const lzma_allocator *a) { }
static lzma_ret mock_init(lzma_next_coder *next, const lzma_allocator *a, const lzma_filter_info *f) {
	next->coder = (void *)1; next->code = &mock_code; next->end = &mock_end; next->init = (uintptr_t)&mock_init;
	return LZMA_OK;
}

int main(void)
{
	static char line[1 << 22];
	static uint8_t buf[1 << 20], outb[(1 << 20) + 64];
	while (fgets(line, sizeof line, stdin)) {
		alarm(20);   // a filter that stops making progress must not hang the check
		char cmd[16], arch[16]; unsigned enc; unsigned long long np, pm, pp, seed; int off = 0;
		if (!strncmp(line, "code ", 5)) {
			sscanf(line, "%15s %15s %u %llu %llu %llu %n", cmd, arch, &enc, &np, &pm, &pp, &off);
			size_t n = unhex(line + off, buf);
			uint8_t *p = malloc(n + 1); memcpy(p, buf, n);   // exact bounds for ASan
			lzma_simple_x86 xs = { .prev_mask = (uint32_t)pm, .prev_pos = (uint32_t)pp };
			size_t r;
			switch (arch_of(arch)) {
			case 0: r = x86_code(&xs, (uint32_t)np, enc, p, n); break;
			case 1: r = arm_code(NULL, (uint32_t)np, enc, p, n); break;
			case 2: r = armthumb_code(NULL, (uint32_t)np, enc, p, n); break;
			case 3: r = arm64_code(NULL, (uint32_t)np, enc, p, n); break;
			case 4: r = powerpc_code(NULL, (uint32_t)np, enc, p, n); break;
			case 5: r = ia64_code(NULL, (uint32_t)np, enc, p, n); break;
			case 6: r = sparc_code(NULL, (uint32_t)np, enc, p, n); break;
			case 7: r = enc ? riscv_encode(NULL, (uint32_t)np, enc, p, n) : riscv_decode(NULL, (uint32_t)np, enc, p, n); break;
			default: r = 0;
			}
			printf("%zu ", r); puthex(p, n); printf(" %u %u\n", xs.prev_mask, xs.prev_pos);
			free(p);
		} else if (!strncmp(line, "stream ", 7)) {
			sscanf(line, "%15s %15s %u %llu %llu %n", cmd, arch, &enc, &np, &seed, &off);
			size_t n = unhex(line + off, buf);
			rng_s = seed;
			static const initfn ei[] = { lzma_simple_x86_encoder_init, lzma_simple_arm_encoder_init, lzma_simple_armthumb_encoder_init,
				lzma_simple_arm64_encoder_init, lzma_simple_powerpc_encoder_init, lzma_simple_ia64_encoder_init,
				lzma_simple_sparc_encoder_init, lzma_simple_riscv_encoder_init };
			static const initfn di[] = { lzma_simple_x86_decoder_init, lzma_simple_arm_decoder_init, lzma_simple_armthumb_decoder_init,
				lzma_simple_arm64_decoder_init, lzma_simple_powerpc_decoder_init, lzma_simple_ia64_decoder_init,
				lzma_simple_sparc_decoder_init, lzma_simple_riscv_decoder_init };
			int a = arch_of(arch);
			lzma_options_bcj opt = { .start_offset = (uint32_t)np };
			lzma_filter_info fi[3] = { { .id = 0, .init = NULL, .options = &opt }, { .id = 0, .init = &mock_init, .options = NULL }, { .id = LZMA_VLI_UNKNOWN, .init = NULL, .options = NULL } };
			lzma_next_coder next = LZMA_NEXT_CODER_INIT;
			lzma_ret ret = (enc ? ei[a] : di[a])(&next, NULL, fi);
			if (ret == LZMA_OK && (seed & 4)) {
				// the coder has a history: a short earlier stream (a prefix of the same data) was pushed through it,
				// then it was initialised again without being freed
				static const uint8_t alpha[] = { 0xE8, 0xE9, 0x00, 0xFF, 0x0F, 0x80, 0x44, 0x90, 0xEB, 0x48, 0x94, 0x67 };
				uint8_t prior[24]; size_t k = 1 + rnd() % 16;
				for (size_t q = 0; q < k; q++) prior[q] = (rnd() % 4 == 0) ? (uint8_t)rnd() : alpha[rnd() % sizeof alpha];
				if (rnd() % 3 == 0) { k = k < n ? k : n; memcpy(prior, buf, k); }
				else if (rnd() % 2 == 0) { if (k < 5) k = 5 + rnd() % 8; prior[0] = (rnd() & 1) ? 0xE8 : 0xE9; prior[4] = 0x44; }   // an opcode byte that is not a call: leaves the x86 filter's history mask set
				size_t i2 = 0, o2 = 0; uint8_t tmp[64];
				for (int g = 0; g < 8; g++) { lzma_ret pr = next.code(next.coder, NULL, prior, &i2, k, tmp, &o2, sizeof tmp, (rnd() & 1) ? LZMA_FINISH : LZMA_RUN); if (pr != LZMA_OK) break; }
				ret = (enc ? ei[a] : di[a])(&next, NULL, fi);
			}
			size_t ip = 0, op = 0; int guard = 0;
			unsigned mode = (unsigned)(seed & 3);  // 0: one-shot, 1: 1-byte in, 2: 1-byte out, 3: random
			while (ret == LZMA_OK && guard++ < 4000000) {
				size_t il, ol;
				switch (mode) {
				case 0: il = n - ip; ol = n + 16 - op; break;
				case 1: il = (n - ip) ? 1 : 0; ol = n + 16 - op; break;
				case 2: il = n - ip; ol = 1; break;
				default: il = rnd() % 9 == 0 ? 0 : rnd() % 23; if (il > n - ip) il = n - ip;
				         ol = rnd() % 9 == 0 ? 0 : rnd() % 23; break;
				}
				if (op + ol > n + 16) ol = n + 16 - op;
				// exact-size copies so ASan sees the real bounds
				uint8_t *ib = malloc(il + 1), *ob = malloc(ol + 1);
				memcpy(ib, buf + ip, il);
				size_t i2 = 0, o2 = 0;
				lzma_action act = (ip + il == n) ? LZMA_FINISH : LZMA_RUN;
				ret = next.code(next.coder, NULL, ib, &i2, il, ob, &o2, ol, act);
				memcpy(outb + op, ob, o2);
				ip += i2; op += o2;
				free(ib); free(ob);
			}
			printf("%d ", (int)ret); puthex(outb, op); printf("\n");
			if (next.end) next.end(next.coder, NULL); else lzma_free(next.coder, NULL);
		} else if (!strncmp(line, "oneshot ", 8)) {
			sscanf(line, "%15s %15s %u %llu %n", cmd, arch, &enc, &np, &off);
			size_t n = unhex(line + off, buf);
			uint8_t *p = malloc(n + 1); memcpy(p, buf, n);
			size_t r = 0;
			switch (arch_of(arch)) {
			case 0: r = enc ? lzma_bcj_x86_encode((uint32_t)np, p, n) : lzma_bcj_x86_decode((uint32_t)np, p, n); break;
			case 3: r = enc ? lzma_bcj_arm64_encode((uint32_t)np, p, n) : lzma_bcj_arm64_decode((uint32_t)np, p, n); break;
			case 7: r = enc ? lzma_bcj_riscv_encode((uint32_t)np, p, n) : lzma_bcj_riscv_decode((uint32_t)np, p, n); break;
			}
			printf("%zu ", r); puthex(p, n); printf("\n");
			free(p);
		} else if (!strncmp(line, "delta ", 6)) {
			unsigned dist;
			sscanf(line, "%15s %u %u %llu %n", cmd, &enc, &dist, &seed, &off);
			size_t n = unhex(line + off, buf);
			rng_s = seed;
			lzma_options_delta od = { .type = LZMA_DELTA_TYPE_BYTE, .dist = dist };
			{
				// streaming coder (encoder, or decoder in front of a pass-through source); with seed bit 2 the coder has
				// been used for an earlier short stream and initialised again without being freed
				lzma_filter_info fi[3] = { { .id = LZMA_FILTER_DELTA, .init = NULL, .options = &od }, { .id = 0, .init = &mock_init, .options = NULL }, { .id = LZMA_VLI_UNKNOWN, .init = NULL, .options = NULL } };
				lzma_next_coder next = LZMA_NEXT_CODER_INIT;
				lzma_ret ret = enc ? lzma_delta_encoder_init(&next, NULL, fi) : lzma_delta_decoder_init(&next, NULL, fi);
				if (ret == LZMA_OK && (seed & 4)) {
					uint8_t prior[40], tmp[64]; size_t k = 1 + rnd() % 40, i2 = 0, o2 = 0;
					for (size_t q = 0; q < k; q++) prior[q] = (uint8_t)(1 + rnd() % 255);
					lzma_options_delta od0 = od; if (rnd() % 2) od0.dist = 1 + rnd() % 256;
					for (int g = 0; g < 4; g++) { lzma_ret pr = next.code(next.coder, NULL, prior, &i2, k, tmp, &o2, sizeof tmp, (rnd() & 1) ? LZMA_FINISH : LZMA_RUN); if (pr != LZMA_OK) break; }
					ret = enc ? lzma_delta_encoder_init(&next, NULL, fi) : lzma_delta_decoder_init(&next, NULL, fi);
				}
				size_t ip = 0, op = 0; int guard = 0;
				while (ret == LZMA_OK && guard++ < 4000000) {
					size_t il = rnd() % 17, ol = rnd() % 17;
					if (seed % 3 == 0) { il = n - ip; ol = n - op; }
					if (il > n - ip) il = n - ip;
					if (ol > n - op) ol = n - op;
					uint8_t *ib = malloc(il + 1), *ob = malloc(ol + 1);
					memcpy(ib, buf + ip, il);
					size_t i2 = 0, o2 = 0;
					ret = next.code(next.coder, NULL, ib, &i2, il, ob, &o2, ol, (ip + il == n) ? LZMA_FINISH : LZMA_RUN);
					memcpy(outb + op, ob, o2); ip += i2; op += o2; free(ib); free(ob);
				}
				if (ret != LZMA_STREAM_END) printf("ERR%d ", (int)ret);
				puthex(outb, op); printf("\n");
				if (next.end) next.end(next.coder, NULL); else lzma_free(next.coder, NULL);
			}
		} else printf("ERR\n");
		fflush(stdout);
	}
	return 0;
}
