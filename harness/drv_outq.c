// White-box driver for outqueue.c: random operation histories on the real lzma_outq.
//  tokens: G[<size>] (buffer of that size, default 64; the buffer handed out must have exactly the size asked for:
//          the threaded encoder relies on it to detect incompressible Blocks) | W<i>,<hex> | F<i> | R<n> | I (lzma_outq_init again)      (i = index among the live buffers, head = 0)
//  -> hex of everything delivered by the reads, in order, then " <bufs_in_use> <mem consistent?>"
#include "outqueue.c"
#include <stdio.h>
#include <stdlib.h>
#include <string.h>
static int hexv(int c) { return c <= '9' ? c - '0' : (c | 32) - 'a' + 10; }
#define BUFSZ 64
int main(void)
{
	static char line[1 << 20];
	while (fgets(line, sizeof line, stdin)) {
		lzma_outq q; memset(&q, 0, sizeof q);
		if (lzma_outq_init(&q, NULL, 64) != LZMA_OK) { printf("ERR\n"); continue; }
		lzma_outbuf *live[256]; int nl = 0; int first = 1; int exact = 1;
		for (char *tok = strtok(line, " \n"); tok; tok = strtok(NULL, " \n")) {
			if (tok[0] == 'G') {
				if (q.bufs_in_use >= q.bufs_limit || nl >= 200) continue;
				size_t want = tok[1] ? (size_t)atoi(tok + 1) : BUFSZ; if (want < BUFSZ || want > 65536) want = BUFSZ;   // never smaller than what W may write
				if (lzma_outq_prealloc_buf(&q, NULL, want) != LZMA_OK) continue;
				live[nl++] = lzma_outq_get_buf(&q, NULL);
				if (live[nl - 1]->allocated != want) exact = 0;
			} else if (tok[0] == 'W') {
				int i = atoi(tok + 1); char *h = strchr(tok, ','); if (!h || i >= nl) continue; h++;
				lzma_outbuf *b = live[i]; if (b->finished) continue;
				while (h[0] && h[1] && b->pos < BUFSZ) { b->buf[b->pos++] = (uint8_t)(hexv(h[0]) << 4 | hexv(h[1])); h += 2; }
			} else if (tok[0] == 'F') {
				int i = atoi(tok + 1); if (i >= nl) continue; live[i]->finished = true;
			} else if (tok[0] == 'I') {
				// re-initialisation of a queue in use: a new epoch, nothing of the old one may show up
				if (lzma_outq_init(&q, NULL, 64) != LZMA_OK) { printf("ERR"); break; }
				nl = 0; printf("/"); first = 0;
			} else if (tok[0] == 'R') {
				size_t n = (size_t)atoi(tok + 1); uint8_t out[256]; size_t op = 0; if (n > sizeof out) n = sizeof out;
				lzma_vli a, b2;
				lzma_ret r = lzma_outq_read(&q, NULL, out, &op, n, &a, &b2);
				for (size_t x = 0; x < op; x++) { printf("%02x", out[x]); first = 0; }
				if (r == LZMA_STREAM_END) { memmove(live, live + 1, (size_t)(nl - 1) * sizeof live[0]); nl--; }
			}
		}
		if (first) printf("-");
		uint64_t mem = 0; for (lzma_outbuf *b = q.head; b; b = b->next) mem += lzma_outq_outbuf_memusage(b->allocated);
		printf(" %u %d\n", q.bufs_in_use, mem == q.mem_in_use && (int)q.bufs_in_use == nl && exact);
		lzma_outq_end(&q, NULL);
		fflush(stdout);
	}
	return 0;
}
