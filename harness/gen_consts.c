// Translator helper: evaluates constants and small decision tables of the
// current source with the preprocessor/compiler and prints "name value..." lines.
#include "common.h"
#include "index.h"
#include "lz_decoder.h"
#include "lzma_common.h"
#include "lzma2_encoder.h"
#include "range_common.h"
#include "stream_flags_common.h"
#include "check.h"
#include "block_encoder.h"
#include <stdio.h>
#define P(n) printf(#n " %llu\n", (unsigned long long)(n))
int main(void)
{
	P(LZMA_VLI_MAX); P(LZMA_VLI_BYTES_MAX); P(UNPADDED_SIZE_MIN); P(UNPADDED_SIZE_MAX);
	P(LZMA_BLOCK_HEADER_SIZE_MIN); P(LZMA_BLOCK_HEADER_SIZE_MAX); P(LZMA_STREAM_HEADER_SIZE);
	P(LZMA_BACKWARD_SIZE_MIN); P(LZMA_BACKWARD_SIZE_MAX); P(LZMA_STREAM_FLAGS_SIZE); P(INDEX_INDICATOR);
	P(LZMA_FILTERS_MAX); P(LZMA_CHECK_ID_MAX); P(LZMA_CHECK_SIZE_MAX); P(LZMA_MEMUSAGE_BASE);
	P(LZMA_FILTER_LZMA2); P(LZMA_FILTER_DELTA); P(LZMA_FILTER_X86); P(LZMA_FILTER_POWERPC); P(LZMA_FILTER_IA64);
	P(LZMA_FILTER_ARM); P(LZMA_FILTER_ARMTHUMB); P(LZMA_FILTER_SPARC); P(LZMA_FILTER_ARM64); P(LZMA_FILTER_RISCV);
	P(LZMA_FILTER_RESERVED_START); P(LZMA_DELTA_DIST_MIN); P(LZMA_DELTA_DIST_MAX);
	P(LZ_DICT_REPEAT_MAX); P(LZ_DICT_INIT_POS); P(LZ_DICT_EXTRA); P(LZMA_DICT_SIZE_MIN);
	P(RC_SHIFT_BITS); P(RC_TOP_BITS); P(RC_TOP_VALUE); P(RC_BIT_MODEL_TOTAL_BITS); P(RC_BIT_MODEL_TOTAL); P(RC_MOVE_BITS);
	P(MATCH_LEN_MIN); P(MATCH_LEN_MAX); P(LEN_LOW_BITS); P(LEN_MID_BITS); P(LEN_HIGH_BITS);
	P(DIST_STATES); P(DIST_SLOT_BITS); P(DIST_MODEL_START); P(DIST_MODEL_END); P(FULL_DISTANCES); P(ALIGN_BITS);
	P(STATES); P(LIT_STATES); P(LZMA_LCLP_MAX); P(LZMA_PB_MAX); P(LITERAL_CODER_SIZE);
	P(LZMA2_CHUNK_MAX); P(LZMA2_UNCOMPRESSED_MAX); P(LZMA2_HEADER_MAX); P(LZMA2_HEADER_UNCOMPRESSED);
	P(COMPRESSED_SIZE_MAX); P(LZMA_THREADS_MAX);
	printf("check_size"); for (int i = 0; i <= LZMA_CHECK_ID_MAX; i++) printf(" %u", lzma_check_size((lzma_check)i)); printf("\n");
	printf("check_supported"); for (int i = 0; i <= LZMA_CHECK_ID_MAX; i++) printf(" %d", (int)lzma_check_is_supported((lzma_check)i)); printf("\n");
	// LZMA state machine macros over all 12 states
	printf("update_literal"); for (unsigned s = 0; s < STATES; s++) { lzma_lzma_state st = s; update_literal(st); printf(" %u", (unsigned)st); } printf("\n");
	printf("update_match"); for (unsigned s = 0; s < STATES; s++) { lzma_lzma_state st = s; update_match(st); printf(" %u", (unsigned)st); } printf("\n");
	printf("update_long_rep"); for (unsigned s = 0; s < STATES; s++) { lzma_lzma_state st = s; update_long_rep(st); printf(" %u", (unsigned)st); } printf("\n");
	printf("update_short_rep"); for (unsigned s = 0; s < STATES; s++) { lzma_lzma_state st = s; update_short_rep(st); printf(" %u", (unsigned)st); } printf("\n");
	printf("is_literal_state"); for (unsigned s = 0; s < STATES; s++) printf(" %d", (int)is_literal_state(s)); printf("\n");
	printf("get_dist_state"); for (unsigned l = 2; l <= 10; l++) printf(" %u", (unsigned)get_dist_state(l)); printf("\n");
	printf("vli_size"); { lzma_vli v[] = {0, 127, 128, 16383, 16384, LZMA_VLI_MAX}; for (int i = 0; i < 6; i++) printf(" %u", lzma_vli_size(v[i])); } printf("\n");
	return 0;
}
