// White-box CRC driver: compile with -DW=32 or -DW=64.  #includes the
// implementation file so the static generic and arch-optimised functions can
// be called directly, regardless of what the runtime dispatcher would pick.
// stdin: lines  "<impl> <align> <init-hex> <data-hex>"   impl: g|a|p|t
//        "T" prints the table as linked in this TU.
// stdout: one hex result per line.
#if W == 32
#include "crc32_fast.c"
#define GEN lzma_crc32_generic
#define PUB lzma_crc32
typedef uint32_t word;
#ifdef CRC32_ARCH_OPTIMIZED
#define ARCH crc32_arch_optimized
#endif
#define TABLE lzma_crc32_table
#define NT 8
#else
#include "crc64_fast.c"
#define GEN lzma_crc64_generic
#define PUB lzma_crc64
typedef uint64_t word;
#ifdef CRC64_ARCH_OPTIMIZED
#define ARCH crc64_arch_optimized
#endif
#define TABLE lzma_crc64_table
#define NT 4
#endif
#include <stdio.h>
#include <stdlib.h>
#include <string.h>

static int hexv(int c) { return c <= '9' ? c - '0' : (c | 32) - 'a' + 10; }

int main(void)
{
	static char line[1 << 22];
	uint8_t *raw = aligned_alloc(64, (1 << 21) + 128);
	while (fgets(line, sizeof line, stdin)) {
		if (line[0] == 'T') {
			for (int s = 0; s < NT; s++) {
				for (int i = 0; i < 256; i++)
					printf("%llx ", (unsigned long long)TABLE[s][i]);
				printf("\n");
			}
			fflush(stdout);
			continue;
		}
		if (line[0] == 'A') { // arch support?
#ifdef ARCH
			printf("%d\n", (int)is_arch_extension_supported());
#else
			printf("0\n");
#endif
			fflush(stdout);
			continue;
		}
		char impl; unsigned align; unsigned long long init; int off = 0;
		if (sscanf(line, "%c %u %llx %n", &impl, &align, &init, &off) < 3) { printf("ERR\n"); continue; }
		char *h = line + off;
		size_t n = 0;
		uint8_t *buf = raw + (align & 63);
		while (h[0] && h[1] && h[0] != '\n' && h[0] != '-') { buf[n++] = (uint8_t)(hexv(h[0]) << 4 | hexv(h[1])); h += 2; }
		word r;
		switch (impl) {
		case 'g': r = GEN(buf, n, (word)init); break;
#ifdef ARCH
		case 'a': r = is_arch_extension_supported() ? ARCH(buf, n, (word)init) : GEN(buf, n, (word)init); break;
#else
		case 'a': r = GEN(buf, n, (word)init); break;
#endif
		default: r = PUB(buf, n, (word)init); break;
		}
		printf("%llx\n", (unsigned long long)r);
	}
	return 0;
}
