// Black-box driver for the integrity-check interface (check.h is internal
// but exported from the static archive): lzma_check_init/update/finish.
// stdin: "<type> <data-hex|-> <split,split,...|->"  -> hex of the finished check bytes
#include "check.h"
#include <stdio.h>
#include <stdlib.h>
#include <string.h>
static int hexv(int c) { return c <= '9' ? c - '0' : (c | 32) - 'a' + 10; }
int main(void)
{
	static char line[1 << 22];
	static uint8_t buf[1 << 21];
	while (fgets(line, sizeof line, stdin)) {
		unsigned type; int off = 0;
		if (!strncmp(line, "big ", 4)) {
			// big <type> <total bytes> <piece> <seed>: a long generated message (byte i = (i * 131 + seed) & 255 within each
			// 1 MiB period) pushed through the check in pieces; for the message-length arithmetic beyond 2^32 bits
			unsigned long long total, piece, seed; unsigned t2;
			if (sscanf(line, "big %u %llu %llu %llu", &t2, &total, &piece, &seed) < 4 || piece == 0 || piece > (1 << 20)) { printf("ERR\n"); fflush(stdout); continue; }
			static uint8_t pat[1 << 20];
			for (size_t i = 0; i < sizeof pat; i++) pat[i] = (uint8_t)(i * 131 + seed);
			lzma_check_state bs; lzma_check_init(&bs, (lzma_check)t2);
			unsigned long long done = 0;
			while (done < total) {
				size_t off2 = (size_t)(done % sizeof pat), l = (size_t)piece;
				if (l > sizeof pat - off2) l = sizeof pat - off2;
				if (l > total - done) l = (size_t)(total - done);
				lzma_check_update(&bs, (lzma_check)t2, pat + off2, l); done += l;
			}
			lzma_check_finish(&bs, (lzma_check)t2);
			for (uint32_t i = 0; i < lzma_check_size((lzma_check)t2); i++) printf("%02x", bs.buffer.u8[i]);
			printf("\n"); fflush(stdout); continue;
		}
		if (sscanf(line, "%u %n", &type, &off) < 1) { printf("ERR\n"); continue; }
		char *h = line + off; size_t n = 0;
		if (*h == '-') h++;
		else while (h[0] && h[1] && h[0] != ' ' && h[0] != '\n') { buf[n++] = (uint8_t)(hexv(h[0]) << 4 | hexv(h[1])); h += 2; }
		while (*h == ' ') h++;
		lzma_check_state st;
		memset(&st, 0xAA, sizeof st);
		lzma_check_init(&st, (lzma_check)type);
		size_t pos = 0;
		while (*h && *h != '\n' && *h != '-') {
			size_t s = strtoul(h, &h, 10);
			if (*h == ',') h++;
			if (s > n) s = n;
			if (s < pos) s = pos;
			// copy piece to a fresh malloc block so ASan sees exact bounds
			uint8_t *p = malloc(s - pos + 1);
			memcpy(p, buf + pos, s - pos);
			lzma_check_update(&st, (lzma_check)type, p, s - pos);
			free(p);
			pos = s;
		}
		{
			uint8_t *p = malloc(n - pos + 1);
			memcpy(p, buf + pos, n - pos);
			lzma_check_update(&st, (lzma_check)type, p, n - pos);
			free(p);
		}
		lzma_check_finish(&st, (lzma_check)type);
		unsigned sz = lzma_check_size((lzma_check)type);
		for (unsigned i = 0; i < sz; i++) printf("%02x", st.buffer.u8[i]);
		printf("\n");
		fflush(stdout);
	}
	return 0;
}
