// Black-box driver for the integrity-check interface (check.h is internal
// but exported from the static archive): lzma_check_init/update/finish.
// stdin: "<type> <data-hex|-> <split,split,...|->"  -> hex of the finished check bytes
#include "check.h"
#include <stdio.h>
#include <stdlib.h>
#include <string.h>
static int hexv(int c) { return c <= '9' ? c - '0' : (c | 32) - 'a' + 10; }
int main(void)
{
	static char line[1 << 22];
	static uint8_t buf[1 << 21];
	while (fgets(line, sizeof line, stdin)) {
		unsigned type; int off = 0;
		if (sscanf(line, "%u %n", &type, &off) < 1) { printf("ERR\n"); continue; }
		char *h = line + off; size_t n = 0;
		if (*h == '-') h++;
		else while (h[0] && h[1] && h[0] != ' ' && h[0] != '\n') { buf[n++] = (uint8_t)(hexv(h[0]) << 4 | hexv(h[1])); h += 2; }
		while (*h == ' ') h++;
		lzma_check_state st;
		memset(&st, 0xAA, sizeof st);
		lzma_check_init(&st, (lzma_check)type);
		size_t pos = 0;
		while (*h && *h != '\n' && *h != '-') {
			size_t s = strtoul(h, &h, 10);
			if (*h == ',') h++;
			if (s > n) s = n;
			if (s < pos) s = pos;
			// copy piece to a fresh malloc block so ASan sees exact bounds
			uint8_t *p = malloc(s - pos + 1);
			memcpy(p, buf + pos, s - pos);
			lzma_check_update(&st, (lzma_check)type, p, s - pos);
			free(p);
			pos = s;
		}
		{
			uint8_t *p = malloc(n - pos + 1);
			memcpy(p, buf + pos, n - pos);
			lzma_check_update(&st, (lzma_check)type, p, n - pos);
			free(p);
		}
		lzma_check_finish(&st, (lzma_check)type);
		unsigned sz = lzma_check_size((lzma_check)type);
		for (unsigned i = 0; i < sz; i++) printf("%02x", st.buffer.u8[i]);
		printf("\n");
		fflush(stdout);
	}
	return 0;
}
