// Range encoder, white-box: drives rc_bit/rc_direct/rc_flush/rc_encode of
// rangecoder/range_encoder.h with an explicit decision sequence and tiny,
// seed-chosen output buffers (so that rc_encode/rc_shift_low suspend and
// resume at every possible point).
//   rc <seed> <tok>...      tok = a<i>:<bit>  adaptive variable i (0..63), initial 1024
//                                 p<prob>:<bit> own variable set to prob before the call
//                                 d<bit>        direct bit
//  -> "<hex of all bytes written> <out_total>"
#include "common.h"
#include "range_encoder.h"
#include <stdio.h>
#include <stdlib.h>
#include <string.h>
static uint64_t rng_s;
static uint32_t rnd(void) { rng_s = rng_s * 6364136223846793005ULL + 1442695040888963407ULL; return (uint32_t)(rng_s >> 33); }
static uint8_t outb[1 << 22]; static size_t op;
// run rc_encode until it has consumed everything queued, with small buffers
static void drain(lzma_range_encoder *rc, unsigned maxchunk)
{
	for (;;) {
		uint8_t buf[64]; size_t pos = 0, size = maxchunk ? rnd() % (maxchunk + 1) : sizeof buf;
		if (size > sizeof buf) size = sizeof buf;
		bool more = rc_encode(rc, buf, &pos, size);
		memcpy(outb + op, buf, pos); op += pos;
		if (!more) return;
	}
}
int main(void)
{
	static char line[1 << 22];
	while (fgets(line, sizeof line, stdin)) {
		unsigned long long seed; int off = 0;
		if (sscanf(line, "rc %llu %n", &seed, &off) < 1) { printf("ERR\n"); fflush(stdout); continue; }
		rng_s = seed + 11; op = 0;
		unsigned maxchunk = seed % 5;   // 0 = roomy buffers, else chunks of 0..maxchunk bytes
		lzma_range_encoder rc; rc_reset(&rc);
		probability ad[64]; for (int i = 0; i < 64; i++) ad[i] = RC_BIT_MODEL_TOTAL >> 1;
		probability own[RC_SYMBOLS_MAX];
		unsigned batch = 1 + rnd() % 40;
		uint64_t total = 0;
		for (char *t = strtok(line + off, " \n"); t; t = strtok(NULL, " \n")) {
			if (t[0] == 'a') { unsigned i, b; sscanf(t + 1, "%u:%u", &i, &b); rc_bit(&rc, &ad[i & 63], b & 1); }
			else if (t[0] == 'p') { unsigned p, b; sscanf(t + 1, "%u:%u", &p, &b); own[rc.count] = (probability)p; rc_bit(&rc, &own[rc.count], b & 1); }
			else if (t[0] == 'd') { rc_direct(&rc, (uint32_t)(t[1] - '0') & 1, 1); }
			if (rc.count >= batch) { drain(&rc, maxchunk); batch = 1 + rnd() % 40; }
		}
		rc_flush(&rc);
		total = 0;
		// out_total is reset by the flush; read it through a copy made by a counting drain
		for (;;) {
			uint8_t buf[64]; size_t pos = 0, size = maxchunk ? rnd() % (maxchunk + 1) : sizeof buf;
			bool more = rc_encode(&rc, buf, &pos, size);
			memcpy(outb + op, buf, pos); op += pos;
			if (!more) break;
			total = rc.out_total;
		}
		if (!op) printf("-"); for (size_t i = 0; i < op; i++) printf("%02x", outb[i]);
		printf(" %llu\n", (unsigned long long)total); fflush(stdout);
	}
	return 0;
}
