// Black-box driver: executes call histories on one lzma_stream through the
// public API with guarded buffers and prints what every call did.
// stdin: one history per line, tokens separated by spaces:
//   I<k>            initialise coder kind k on the same handle (no lzma_end before)
//   E               lzma_end
//   C<a>,<n>,<m>,<x> lzma_code(action a) after appending n new input bytes and offering m output bytes;
//                   x: 0 normal, 1 next_in=NULL, 2 next_out=NULL, 3 reserved field set, 4 drop one pending input byte
// stdout: per history one line; per token a group:  i:<ret>,<sup-bits>   e    c:<ret>,<ain0>,<aout0>,<ain1>,<aout1>,<tin>,<tout>,<ptr_ok>,<guard_ok>
#include "lzma.h"
#include <stdio.h>
#include <stdlib.h>
#include <string.h>
#include <stdint.h>

static uint8_t plain[1 << 16]; static size_t plain_n;
static uint8_t xzs[1 << 16]; static size_t xz_n;
static uint8_t lzmas[1 << 16]; static size_t lzma_n;
static uint8_t raws[1 << 16]; static size_t raw_n;
static uint8_t lzs[1 << 16]; static size_t lz_n;
static lzma_options_lzma ol;
static lzma_filter f2[2];

static void prepare(const char *lzfile)
{
	uint32_t x = 12345;
	plain_n = 20000;
	for (size_t i = 0; i < plain_n; i++) { x = x * 1103515245u + 12345u; plain[i] = "abcdefgh \n"[(x >> 16) % 10] ^ (uint8_t)((x >> 28) == 0 ? x >> 8 : 0); }
	lzma_lzma_preset(&ol, 0);
	f2[0].id = LZMA_FILTER_LZMA2; f2[0].options = &ol; f2[1].id = LZMA_VLI_UNKNOWN; f2[1].options = NULL;
	size_t op = 0;
	lzma_easy_buffer_encode(0, LZMA_CHECK_CRC64, NULL, plain, 6000, xzs, &op, sizeof xzs); xz_n = op;
	// second stream + padding for CONCATENATED
	op = 0; lzma_easy_buffer_encode(1, LZMA_CHECK_SHA256, NULL, plain + 100, 3000, xzs + xz_n + 4, &op, sizeof xzs - xz_n - 4);
	memset(xzs + xz_n, 0, 4); xz_n += 4 + op;
	lzma_stream s = LZMA_STREAM_INIT;
	lzma_alone_encoder(&s, &ol);
	s.next_in = plain; s.avail_in = 5000; s.next_out = lzmas; s.avail_out = sizeof lzmas;
	lzma_code(&s, LZMA_FINISH); lzma_n = s.total_out; lzma_end(&s);
	op = 0; lzma_raw_buffer_encode(f2, NULL, plain, 5000, raws, &op, sizeof raws); raw_n = op;
	FILE *f = fopen(lzfile, "rb"); if (f) { lz_n = fread(lzs, 1, sizeof lzs, f); fclose(f); }
}

#define GUARD 64
static uint8_t *gin, *gout; static size_t gin_n, gout_n;

int main(int argc, char **argv)
{
	prepare(argc > 1 ? argv[1] : "/nonexistent");
	static char line[1 << 20];
	while (fgets(line, sizeof line, stdin)) {
		lzma_stream strm = LZMA_STREAM_INIT;
		const uint8_t *src = plain; size_t src_n = plain_n, src_pos = 0;
		// pending input buffer (what the app still holds) lives in a fresh malloc each call
		uint8_t *pend = NULL; size_t pend_n = 0;
		for (char *tok = strtok(line, " \n"); tok; tok = strtok(NULL, " \n")) {
			if (tok[0] == 'I') {
				int k = atoi(tok + 1); lzma_ret r = LZMA_PROG_ERROR;
				static lzma_mt mt; mt = (lzma_mt){ .threads = 2, .preset = 0, .check = LZMA_CHECK_CRC32, .memlimit_threading = UINT64_MAX, .memlimit_stop = UINT64_MAX, .block_size = 4096, .timeout = 0 };
				static lzma_block blk; memset(&blk, 0, sizeof blk); blk.check = LZMA_CHECK_CRC32; blk.filters = f2;
				blk.compressed_size = LZMA_VLI_UNKNOWN; blk.uncompressed_size = LZMA_VLI_UNKNOWN; blk.header_size = 12;
				src = plain; src_n = plain_n;
				switch (k) {
				case 0: r = lzma_easy_encoder(&strm, 0, LZMA_CHECK_CRC32); break;
				case 1: r = lzma_stream_encoder_mt(&strm, &mt); break;
				case 2: r = lzma_alone_encoder(&strm, &ol); break;
				case 3: r = lzma_raw_encoder(&strm, f2); break;
				case 4: r = lzma_block_encoder(&strm, &blk); break;
				case 5: r = lzma_microlzma_encoder(&strm, &ol); break;
				case 6: r = lzma_stream_decoder(&strm, UINT64_MAX, LZMA_TELL_ANY_CHECK | LZMA_CONCATENATED); src = xzs; src_n = xz_n; break;
				case 7: r = lzma_alone_decoder(&strm, UINT64_MAX); src = lzmas; src_n = lzma_n; break;
				case 8: r = lzma_auto_decoder(&strm, UINT64_MAX, 0); src = xzs; src_n = xz_n; break;
				case 9: r = lzma_lzip_decoder(&strm, UINT64_MAX, 0); src = lzs; src_n = lz_n; break;
				case 10: r = lzma_raw_decoder(&strm, f2); src = raws; src_n = raw_n; break;
				case 11: r = lzma_stream_decoder_mt(&strm, &mt); src = xzs; src_n = xz_n; break;
				}
				src_pos = 0; free(pend); pend = NULL; pend_n = 0;
				printf("i:%d ", (int)r);
			} else if (tok[0] == 'E') {
				lzma_end(&strm); printf("e ");
			} else if (tok[0] == 'C') {
				int a, x; size_t n, m;
				if (sscanf(tok + 1, "%d,%zu,%zu,%d", &a, &n, &m, &x) != 4) { printf("ERR "); continue; }
				if (n > src_n - src_pos) n = src_n - src_pos;
				if (x == 4 && pend_n > 0) { memmove(pend, pend + 1, pend_n - 1); pend_n--; }
				// new pending buffer = old pending + n new bytes, exact-size allocation with guards
				gin_n = pend_n + n;
				gin = malloc(gin_n + 2 * GUARD); memset(gin, 0xA5, gin_n + 2 * GUARD);
				if (pend_n) memcpy(gin + GUARD, pend, pend_n);
				memcpy(gin + GUARD + pend_n, src + src_pos, n); src_pos += n;
				gout_n = m; gout = malloc(m + 2 * GUARD); memset(gout, 0x5A, m + 2 * GUARD);
				uint8_t *incopy = malloc(gin_n + 1); memcpy(incopy, gin + GUARD, gin_n);
				strm.next_in = (x == 1) ? NULL : gin + GUARD; strm.avail_in = gin_n;
				strm.next_out = (x == 2) ? NULL : gout + GUARD; strm.avail_out = m;
				if (x == 3) strm.reserved_int3 = 7; else strm.reserved_int3 = 0;
				const uint8_t *ni0 = strm.next_in; uint8_t *no0 = strm.next_out;
				size_t ai0 = strm.avail_in, ao0 = strm.avail_out;
				lzma_ret r = lzma_code(&strm, (lzma_action)a);
				size_t di = ai0 - strm.avail_in, dd = ao0 - strm.avail_out;
				int ptr_ok = (ni0 ? strm.next_in == ni0 + di : di == 0) && (no0 ? strm.next_out == no0 + dd : dd == 0)
					&& strm.avail_in <= ai0 && strm.avail_out <= ao0;
				int guard_ok = 1;
				for (size_t i = 0; i < GUARD; i++) {
					if (gin[i] != 0xA5 || gin[GUARD + gin_n + i] != 0xA5) guard_ok = 0;
					if (gout[i] != 0x5A || gout[GUARD + m + i] != 0x5A) guard_ok = 0;
				}
				if (memcmp(incopy, gin + GUARD, gin_n)) guard_ok = 0;          // input must not be modified
				for (size_t i = dd; i < m; i++) if (gout[GUARD + i] != 0x5A) guard_ok = 0; // beyond produced: untouched
				printf("c:%d,%zu,%zu,%zu,%zu,%llu,%llu,%d,%d ", (int)r, ai0, ao0, strm.avail_in, strm.avail_out,
					(unsigned long long)strm.total_in, (unsigned long long)strm.total_out, ptr_ok, guard_ok);
				// keep the unconsumed input as pending
				free(pend); pend_n = (x == 1) ? gin_n : strm.avail_in; pend = malloc(pend_n + 1);
				memcpy(pend, gin + GUARD + (gin_n - pend_n), pend_n);
				free(gin); free(gout); free(incopy);
			}
		}
		lzma_end(&strm); free(pend);
		printf("\n"); fflush(stdout);
	}
	return 0;
}
