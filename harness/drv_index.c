// Black-box driver for the lzma_index API: executes operation histories on up to 4 index slots.
#include "lzma.h"
#include <stdio.h>
#include <stdlib.h>
#include <string.h>
#include <inttypes.h>

static void pblock(const lzma_index_iter *it)
{
	printf("%u,%" PRIu64 ",%" PRIu64 ",%" PRIu64 ",%" PRIu64 ",%" PRIu64 ",%" PRIu64 ",%" PRIu64,
		it->stream.number, it->block.number_in_stream, it->block.number_in_file,
		it->block.compressed_file_offset, it->block.uncompressed_file_offset,
		it->block.unpadded_size, it->block.uncompressed_size, it->block.total_size);
}

int main(void)
{
	static char line[1 << 22];
	while (fgets(line, sizeof line, stdin)) {
		lzma_index *ix[4] = {NULL, NULL, NULL, NULL};
		for (char *tok = strtok(line, " \n"); tok; tok = strtok(NULL, " \n")) {
			char op = tok[0]; unsigned k = 0, j = 0; unsigned long long a = 0, b = 0;
			int n = sscanf(tok + 1, "%u,%llu,%llu", &k, &a, &b);
			if (n < 1 || k > 3) { printf("ERR "); continue; }
			j = (unsigned)a;
			if (op != 'i' && ix[k] == NULL) { printf("- "); continue; }
			switch (op) {
			case 'i': lzma_index_end(ix[k], NULL); ix[k] = lzma_index_init(NULL); printf("%d ", ix[k] != NULL); break;
			case 'r': lzma_index_prealloc(ix[k], a); printf("ok "); break;
			case 'a': printf("%d ", (int)lzma_index_append(ix[k], NULL, a, b)); break;
			case 'f': { lzma_stream_flags sf; memset(&sf, 0, sizeof sf); sf.version = 0; sf.check = (lzma_check)a; sf.backward_size = LZMA_VLI_UNKNOWN;
				printf("%d ", (int)lzma_index_stream_flags(ix[k], &sf)); break; }
			case 'p': printf("%d ", (int)lzma_index_stream_padding(ix[k], a)); break;
			case 'c': if (j > 3 || j == k || ix[j] == NULL) { printf("- "); break; }
				{ lzma_ret r = lzma_index_cat(ix[k], ix[j], NULL); if (r == LZMA_OK) ix[j] = NULL; printf("%d ", (int)r); } break;
			case 'd': if (j > 3 || j == k) { printf("- "); break; }
				lzma_index_end(ix[j], NULL); ix[j] = lzma_index_dup(ix[k], NULL); printf("%d ", ix[j] != NULL); break;
			case 'q': printf("%" PRIu64 ",%" PRIu64 ",%" PRIu64 ",%" PRIu64 ",%" PRIu64 ",%" PRIu64 ",%" PRIu64 ",%u,%d ",
				lzma_index_block_count(ix[k]), lzma_index_stream_count(ix[k]), lzma_index_size(ix[k]), lzma_index_stream_size(ix[k]),
				lzma_index_total_size(ix[k]), lzma_index_file_size(ix[k]), lzma_index_uncompressed_size(ix[k]), lzma_index_checks(ix[k]),
				lzma_index_memused(ix[k]) == lzma_index_memusage(lzma_index_stream_count(ix[k]), lzma_index_block_count(ix[k]))); break;
			case 't': {
				lzma_index_iter it; unsigned long nb = 0, nn = 0, ns = 0, na = 0;
				lzma_index_iter_init(&it, ix[k]); while (!lzma_index_iter_next(&it, LZMA_INDEX_ITER_NONEMPTY_BLOCK)) nn++;
				lzma_index_iter_init(&it, ix[k]); while (!lzma_index_iter_next(&it, LZMA_INDEX_ITER_STREAM)) ns++;
				lzma_index_iter_init(&it, ix[k]); while (!lzma_index_iter_next(&it, LZMA_INDEX_ITER_ANY)) na++;
				lzma_index_iter_init(&it, ix[k]); while (!lzma_index_iter_next(&it, LZMA_INDEX_ITER_BLOCK)) nb++;
				printf("%lu|%lu|%lu|%lu|", nb, nn, ns, na);
				lzma_index_iter_init(&it, ix[k]);
				int first = 1;
				while (!lzma_index_iter_next(&it, LZMA_INDEX_ITER_BLOCK)) { if (!first) printf(";"); first = 0; pblock(&it); }
				// interleave an append on a dup?  (iterator validity across cat is exercised by history order)
				printf(" "); break; }
			case 'l': { lzma_index_iter it; lzma_index_iter_init(&it, ix[k]);
				if (lzma_index_iter_locate(&it, a)) printf("none "); else { pblock(&it); printf(" "); } break; }
			case 'e': { size_t sz = (size_t)lzma_index_size(ix[k]); uint8_t *buf = malloc(sz + 1); size_t pos = 0;
				lzma_ret r = lzma_index_buffer_encode(ix[k], buf, &pos, sz);
				printf("%d:", (int)r); for (size_t x = 0; x < pos; x++) printf("%02x", buf[x]);
				// decode it back and compare block count / sizes
				lzma_index *back = NULL; uint64_t ml = UINT64_MAX; size_t ip = 0;
				lzma_ret r2 = lzma_index_buffer_decode(&back, &ml, NULL, buf, &ip, pos);
				printf(":%d:%" PRIu64 ":%" PRIu64, (int)r2, back ? lzma_index_block_count(back) : 0, back ? lzma_index_uncompressed_size(back) : 0);
				// the same bytes through the multi-call decoder, 1 and 3 bytes per call: must give the same Index
				for (size_t chunk = 1; chunk <= 3 && r == LZMA_OK; chunk += 2) {
					lzma_stream ds = LZMA_STREAM_INIT; lzma_index *si = NULL; lzma_ret r3 = lzma_index_decoder(&ds, &si, UINT64_MAX);
					size_t fed = 0; unsigned guard = 0;
					while (r3 == LZMA_OK && guard++ < 10000000) {
						size_t l = pos - fed < chunk ? pos - fed : chunk;
						ds.next_in = buf + fed; ds.avail_in = l; r3 = lzma_code(&ds, LZMA_RUN); fed += l - ds.avail_in;
						if (r3 == LZMA_OK && fed == pos && l == 0) { r3 = lzma_code(&ds, LZMA_RUN); break; }
					}
					int same = (r2 == LZMA_OK) ? (r3 == LZMA_STREAM_END && si != NULL && back != NULL
							&& lzma_index_block_count(si) == lzma_index_block_count(back)
							&& lzma_index_uncompressed_size(si) == lzma_index_uncompressed_size(back)
							&& lzma_index_file_size(si) == lzma_index_file_size(back))
						: (r3 != LZMA_STREAM_END);
					if (!same) printf(":MULTICALL-DECODER-DIFFERS(chunk=%zu,ret=%d,index=%s)", chunk, (int)r3, si ? "yes" : "NULL");
					lzma_end(&ds); if (r3 == LZMA_STREAM_END) lzma_index_end(si, NULL);
				}
				// a decoded Index is an Index like any other: it can be appended to (also one decoded from an Index without Records)
				if (back) { uint64_t c0 = lzma_index_block_count(back), u0 = lzma_index_uncompressed_size(back);
					lzma_ret ar = lzma_index_append(back, NULL, 104, 7);
					if (ar == LZMA_OK && (lzma_index_block_count(back) != c0 + 1 || lzma_index_uncompressed_size(back) != u0 + 7)) printf(":APPEND-TO-DECODED-INDEX-WRONG");
					lzma_index_iter it2; lzma_index_iter_init(&it2, back); uint64_t seen = 0; while (!lzma_index_iter_next(&it2, LZMA_INDEX_ITER_BLOCK)) seen++;
					if (seen != lzma_index_block_count(back)) printf(":ITER-AFTER-APPEND-WRONG"); }
				printf(" ");
				lzma_index_end(back, NULL); free(buf); break; }
			case 'z': lzma_index_end(ix[k], NULL); ix[k] = NULL; printf("ok "); break;
			default: printf("ERR ");
			}
		}
		for (int k = 0; k < 4; k++) lzma_index_end(ix[k], NULL);
		printf("\n"); fflush(stdout);
	}
	return 0;
}
