// lzma_file_info_decoder driver:  F <chunk> <seed> <hex of whole file>
//  -> "<ret> <max_seek_ok> q:<queries> t:<blocks> d:<crc32 of each block decoded at the offsets the index gives>"
#include "lzma.h"
#include <stdio.h>
#include <stdlib.h>
#include <string.h>
#include <inttypes.h>
static int hexv(int c) { return c <= '9' ? c - '0' : (c | 32) - 'a' + 10; }
static uint64_t rng_s;
static uint32_t rnd(void) { rng_s = rng_s * 6364136223846793005ULL + 1442695040888963407ULL; return (uint32_t)(rng_s >> 33); }
int main(void)
{
	static char line[1 << 24];
	uint8_t *file = malloc(1 << 23);
	while (fgets(line, sizeof line, stdin)) {
		unsigned chunk; unsigned long long seed; int off = 0;
		if (sscanf(line, "F %u %llu %n", &chunk, &seed, &off) < 2) { printf("ERR\n"); fflush(stdout); continue; }
		char *h = line + off; size_t n = 0;
		if (*h != '-') while (h[0] && h[1] && h[0] != '\n') { file[n++] = (uint8_t)(hexv(h[0]) << 4 | hexv(h[1])); h += 2; }
		rng_s = seed + 1;
		lzma_stream s = LZMA_STREAM_INIT; lzma_index *idx = NULL;
		lzma_ret r = lzma_file_info_decoder(&s, &idx, UINT64_MAX, n);
		size_t pos = 0; int seek_ok = 1; unsigned calls = 0;
		while (r == LZMA_OK || r == LZMA_SEEK_NEEDED) {
			if (r == LZMA_SEEK_NEEDED) { if (s.seek_pos > n) { seek_ok = 0; break; } pos = (size_t)s.seek_pos; }
			size_t il = chunk ? chunk : 1 + rnd() % 300;
			if (il > n - pos) il = n - pos;
			uint8_t *ib = malloc(il ? il : 1); memcpy(ib, file + pos, il);
			s.next_in = ib; s.avail_in = il;
			r = lzma_code(&s, pos + il == n ? LZMA_FINISH : LZMA_RUN);
			pos += il - s.avail_in;
			free(ib);
			if (++calls > 10000000) { r = 99; break; }
			if (r == LZMA_BUF_ERROR) break;
		}
		printf("%d %d ", (int)r, seek_ok);
		if (r == LZMA_STREAM_END && idx) {
			printf("q:%" PRIu64 ",%" PRIu64 ",%" PRIu64 ",%" PRIu64 ",%" PRIu64 ",%" PRIu64 ",%" PRIu64 ",%u ",
				lzma_index_block_count(idx), lzma_index_stream_count(idx), lzma_index_size(idx), lzma_index_stream_size(idx),
				lzma_index_total_size(idx), lzma_index_file_size(idx), lzma_index_uncompressed_size(idx), lzma_index_checks(idx));
			lzma_index_iter it; lzma_index_iter_init(&it, idx); int first = 1;
			printf("t:");
			while (!lzma_index_iter_next(&it, LZMA_INDEX_ITER_BLOCK)) {
				if (!first) printf(";"); first = 0;
				printf("%u,%" PRIu64 ",%" PRIu64 ",%" PRIu64 ",%" PRIu64 ",%" PRIu64 ",%" PRIu64 ",%" PRIu64,
					it.stream.number, it.block.number_in_stream, it.block.number_in_file, it.block.compressed_file_offset,
					it.block.uncompressed_file_offset, it.block.unpadded_size, it.block.uncompressed_size, it.block.total_size);
			}
			if (first) printf("-");
			printf(" p:"); lzma_index_iter_init(&it, idx); first = 1;
			while (!lzma_index_iter_next(&it, LZMA_INDEX_ITER_STREAM)) { if (!first) printf(";"); first = 0;
				printf("%" PRIu64 ",%d", it.stream.padding, it.stream.flags ? (int)it.stream.flags->check : -1); }
			printf(" d:"); lzma_index_iter_init(&it, idx); first = 1;
			while (!lzma_index_iter_next(&it, LZMA_INDEX_ITER_BLOCK)) {
				if (!first) printf(";"); first = 0;
				size_t o = (size_t)it.block.compressed_file_offset;
				lzma_filter filters[LZMA_FILTERS_MAX + 1]; lzma_block blk; memset(&blk, 0, sizeof blk);
				blk.version = 1; blk.filters = filters; blk.check = it.stream.flags ? it.stream.flags->check : LZMA_CHECK_NONE;
				lzma_ret br = LZMA_DATA_ERROR; uint32_t crc = 0; size_t op = 0;
				if (o < n && file[o] != 0) {
					blk.header_size = lzma_block_header_size_decode(file[o]);
					if (o + blk.header_size <= n && (br = lzma_block_header_decode(&blk, NULL, file + o)) == LZMA_OK) {
						size_t ip = o + blk.header_size; size_t cap = (size_t)it.block.uncompressed_size + 16;
						uint8_t *ob = malloc(cap);
						br = lzma_block_buffer_decode(&blk, NULL, file, &ip, n, ob, &op, cap);
						crc = lzma_crc32(ob, op, 0); free(ob);
						lzma_filters_free(filters, NULL);
					}
				}
				printf("%d,%zu,%08x", (int)br, op, crc);
			}
			if (first) printf("-");
		}
		printf("\n"); fflush(stdout);
		lzma_index_end(idx, NULL); lzma_end(&s);
	}
	free(file); return 0;
}
