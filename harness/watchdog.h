// Watchdog for the drivers: tells "stuck" from "slow because the machine is busy".
// A plain alarm(n) measures wall-clock time, so a check run next to other heavy jobs
// could be killed although the code under test was making progress (seen once in a
// thorough run of C08 while 16 builds were running: a false alarm).  Here a call is
// declared stuck when
//   - for n consecutive seconds the process used no CPU time and (in the `mt` build)
//     made no synchronisation call: every thread is blocked = deadlock / lost wake-up;
//   - or it used more than 2n seconds of CPU time (all threads) = unbounded loop
//     (CPU time does not depend on the load of the machine);
//   - or 40n seconds of wall-clock time passed (backstop, e.g. timed waits that never end).
// The process then dies from SIGALRM exactly as with alarm(n) (status -14 for the caller).
#ifndef VERIF_WATCHDOG_H
#define VERIF_WATCHDOG_H
#include <signal.h>
#include <string.h>
#include <sys/time.h>
#include <time.h>
#include <unistd.h>
extern volatile unsigned long verif_sync_calls __attribute__((weak));
static volatile unsigned wd_n, wd_idle, wd_ticks;
static volatile unsigned long wd_last_sync;
static volatile long long wd_cpu0, wd_last_cpu;
static long long wd_cpu_now(void) { struct timespec t; clock_gettime(CLOCK_PROCESS_CPUTIME_ID, &t); return (long long)t.tv_sec * 1000000000LL + t.tv_nsec; }
static void wd_die(const char *why) { (void)!write(2, why, strlen(why)); signal(SIGALRM, SIG_DFL); raise(SIGALRM); }
static void wd_tick(int sig)
{
	(void)sig; if (!wd_n) return;
	long long c = wd_cpu_now(); unsigned long sc = &verif_sync_calls ? verif_sync_calls : 0;
	if (c - wd_last_cpu > 200000 || sc != wd_last_sync) wd_idle = 0; else wd_idle++;
	wd_last_cpu = c; wd_last_sync = sc; wd_ticks++;
	if (wd_idle >= wd_n) wd_die("watchdog: no thread made progress (deadlock / lost wake-up)\n");
	if (c - wd_cpu0 > 2000000000LL * wd_n) wd_die("watchdog: CPU time limit (unbounded loop)\n");
	if (wd_ticks >= 40 * wd_n) wd_die("watchdog: wall-clock backstop\n");
}
static void verif_watchdog(unsigned n)
{
	struct itimerval it; memset(&it, 0, sizeof(it));
	if (n) {
		struct sigaction sa; memset(&sa, 0, sizeof(sa)); sa.sa_handler = wd_tick; sa.sa_flags = SA_RESTART; sigaction(SIGALRM, &sa, NULL);
		wd_idle = 0; wd_ticks = 0; wd_cpu0 = wd_last_cpu = wd_cpu_now(); wd_last_sync = &verif_sync_calls ? verif_sync_calls : 0;
		it.it_interval.tv_sec = 1; it.it_value.tv_sec = 1;
	}
	wd_n = n; setitimer(ITIMER_REAL, &it, NULL);
}
#define alarm(n) verif_watchdog(n)
#endif
