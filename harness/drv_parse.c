// Parser entry points under ASan/UBSan:  P <kind> <arg> <hex>
//  kind 0 lzma_block_header_decode   1 lzma_stream_header_decode  2 lzma_stream_footer_decode
//       3 lzma_filter_flags_decode   4 lzma_str_to_filters (input = text)  5 lzma_index_buffer_decode (arg = memlimit)
//       6 lzma_block_buffer_decode after header decode  7 lzma_properties_decode for filter id = arg
//       8 lzma_str_list_filters/str_from_filters round trip  9 lzma_vli_decode multi-call
//  -> "<ret>"  (anything; the point is: no sanitizer report, documented code, no hang)
#include "lzma.h"
#include <stdio.h>
#include <stdlib.h>
#include <string.h>
#include <unistd.h>
#include "watchdog.h"
static int hexv(int c) { return c <= '9' ? c - '0' : (c | 32) - 'a' + 10; }
int main(void)
{
	static char line[1 << 22];
	while (fgets(line, sizeof line, stdin)) {
		unsigned kind; unsigned long long arg; int off = 0;
		if (sscanf(line, "P %u %llu %n", &kind, &arg, &off) < 2) { printf("ERR\n"); fflush(stdout); continue; }
		char *h = line + off; size_t n = 0;
		uint8_t *buf = malloc(strlen(h) / 2 + 2);
		if (*h != '-') while (h[0] && h[1] && h[0] != '\n') { buf[n++] = (uint8_t)(hexv(h[0]) << 4 | hexv(h[1])); h += 2; }
		uint8_t *in = malloc(n ? n : 1); memcpy(in, buf, n); free(buf);   // exact-size buffer
		alarm(20);
		int ret = -1;
		switch (kind) {
		case 0: {
			if (n < 1 || in[0] == 0) { ret = -2; break; }
			lzma_filter f[LZMA_FILTERS_MAX + 1]; lzma_block b; memset(&b, 0, sizeof b);
			b.version = 1; b.filters = f; b.check = (lzma_check)(arg & 15);
			b.header_size = lzma_block_header_size_decode(in[0]);
			if (b.header_size > n) { ret = -2; break; }
			ret = (int)lzma_block_header_decode(&b, NULL, in);
			if (ret == LZMA_OK) { (void)lzma_block_unpadded_size(&b); (void)lzma_block_total_size(&b); (void)lzma_raw_decoder_memusage(f); }
			lzma_filters_free(f, NULL); break; }
		case 1: { lzma_stream_flags sf; if (n < 12) { ret = -2; break; } ret = (int)lzma_stream_header_decode(&sf, in); break; }
		case 2: { lzma_stream_flags sf; if (n < 12) { ret = -2; break; } ret = (int)lzma_stream_footer_decode(&sf, in); break; }
		case 3: { lzma_filter f; size_t pos = 0; ret = (int)lzma_filter_flags_decode(&f, NULL, in, &pos, n); if (ret == LZMA_OK) free(f.options); break; }
		case 4: { char *s = malloc(n + 1); memcpy(s, in, n); s[n] = 0; for (size_t i = 0; i < n; i++) if (!s[i]) s[i] = ' ';
			lzma_filter f[LZMA_FILTERS_MAX + 1]; int ep = 0;
			const char *e = lzma_str_to_filters(s, &ep, f, (uint32_t)arg, NULL);
			if (!e) { char *out = NULL; ret = (int)lzma_str_from_filters(&out, f, LZMA_STR_ENCODER | LZMA_STR_GETOPT_LONG, NULL);
				if (out) { // the textual form must parse back to an equivalent chain
					lzma_filter g[LZMA_FILTERS_MAX + 1]; int ep2 = 0;
					const char *e2 = lzma_str_to_filters(out, &ep2, g, LZMA_STR_ALL_FILTERS, NULL);
					if (e2) ret = 77; else lzma_filters_free(g, NULL);
					free(out); }
				lzma_filters_free(f, NULL); } else ret = 100 + (ep < 0 || (size_t)ep > n);
			free(s); break; }
		case 5: { lzma_index *i = NULL; uint64_t ml = arg ? arg : UINT64_MAX; size_t pos = 0;
			ret = (int)lzma_index_buffer_decode(&i, &ml, NULL, in, &pos, n); lzma_index_end(i, NULL); break; }
		case 6: {
			if (n < 1 || in[0] == 0) { ret = -2; break; }
			lzma_filter f[LZMA_FILTERS_MAX + 1]; lzma_block b; memset(&b, 0, sizeof b);
			b.version = 1; b.filters = f; b.check = (lzma_check)(arg & 15);
			b.header_size = lzma_block_header_size_decode(in[0]);
			if (b.header_size > n) { ret = -2; break; }
			ret = (int)lzma_block_header_decode(&b, NULL, in);
			if (ret == LZMA_OK) { size_t ip = b.header_size, op = 0; size_t cap = 1 << 16; uint8_t *o = malloc(cap);
				ret = (int)lzma_block_buffer_decode(&b, NULL, in, &ip, n, o, &op, cap); free(o); }
			lzma_filters_free(f, NULL); break; }
		case 7: { lzma_filter f; f.id = arg; f.options = NULL; ret = (int)lzma_properties_decode(&f, NULL, in, n); free(f.options); break; }
		case 8: { char *out = NULL; ret = (int)lzma_str_list_filters(&out, arg ? arg : LZMA_VLI_UNKNOWN, (uint32_t)(n ? in[0] : 0), NULL); free(out); break; }
		case 9: { lzma_vli v = 0; size_t vp = 0, ip = 0; ret = LZMA_OK;
			while (ret == LZMA_OK && ip < n) { size_t end = ip + 1; ret = (int)lzma_vli_decode(&v, &vp, in, &ip, end); }
			break; }
		}
		alarm(0);
		printf("%d\n", ret); fflush(stdout);
		free(in);
	}
	return 0;
}
