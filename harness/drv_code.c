// White-box driver for lzma_code(): (1) "table": runs the real lzma_code()
// against a mock inner coder over its whole decision space and prints one
// row per combination; (2) "supported": supported_actions[] of every public
// initialiser.
#include "common.c"
#include "lzma.h"
#include <stdio.h>
#include <stdlib.h>
#include <string.h>

static lzma_ret m_ret; static size_t m_in, m_out; static int m_called;
static lzma_ret mock_code(void *c, const lzma_allocator *a, const uint8_t *restrict in, size_t *restrict in_pos,
		size_t in_size, uint8_t *restrict out, size_t *restrict out_pos, size_t out_size, lzma_action action)
{
	m_called = 1;
	*in_pos += m_in; *out_pos += m_out;
	return m_ret;
}

static void row(unsigned q, unsigned a, size_t sv, unsigned ir, size_t iu, size_t ou, int al, int su,
		int inn, int outn, int rb, int ini, size_t ain, size_t aout)
{
	static uint8_t ibuf[16], obuf[16];
	lzma_stream strm = LZMA_STREAM_INIT;
	lzma_internal in_;
	memset(&in_, 0, sizeof in_);
	in_.next = LZMA_NEXT_CODER_INIT;
	in_.next.code = &mock_code; in_.next.coder = (void *)1;
	in_.sequence = q; in_.avail_in = sv; in_.allow_buf_error = al;
	if (a <= LZMA_ACTION_MAX) in_.supported_actions[a] = su;
	strm.internal = ini ? &in_ : NULL;
	strm.next_in = inn ? NULL : ibuf; strm.next_out = outn ? NULL : obuf;
	strm.avail_in = ain; strm.avail_out = aout;
	strm.total_in = 100; strm.total_out = 200;
	if (rb) strm.reserved_int2 = 1;
	m_ret = (lzma_ret)ir; m_in = iu; m_out = ou; m_called = 0;
	const uint8_t *ni = strm.next_in; uint8_t *no = strm.next_out;
	lzma_ret r = lzma_code(&strm, (lzma_action)a);
	// pointer movement must equal the avail movement
	size_t di = ain - strm.avail_in, dd = aout - strm.avail_out;
	int ptr_ok = (strm.next_in == (ni ? ni + di : NULL) || (!ni && di == 0)) && (strm.next_out == (no ? no + dd : NULL) || (!no && dd == 0));
	printf("%u %u %zu %u %zu %zu %d %d %d %d %d %d %zu %zu  %d %d %d %d %zu %llu %llu %zu %zu %d\n",
		q, a, sv, ir, iu, ou, al, su, inn, outn, rb, ini, ain, aout,
		(int)r, (int)in_.sequence, (int)in_.allow_buf_error, m_called, in_.avail_in,
		(unsigned long long)strm.total_in, (unsigned long long)strm.total_out, strm.avail_in, strm.avail_out, ptr_ok);
}

int main(int argc, char **argv)
{
	if (argc > 1 && !strcmp(argv[1], "table")) {
		static const unsigned rets[] = {0,1,2,3,4,5,6,7,8,9,11,12,101,102};
		static const size_t prog[4][2] = {{0,0},{2,0},{0,3},{2,3}};
		for (unsigned q = 0; q < 7; q++) for (unsigned a = 0; a < 7; a++) for (int chg = 0; chg < 2; chg++)
		for (unsigned ri = 0; ri < sizeof rets / sizeof rets[0]; ri++) for (int p = 0; p < 4; p++)
		for (int al = 0; al < 2; al++) for (int su = 0; su < 2; su++)
			row(q, a, chg ? 4 : 5, rets[ri], prog[p][0], prog[p][1], al, su, 0, 0, 0, 1, 5, 7);
		for (int m = 1; m < 16; m++) for (unsigned q = 0; q < 7; q++) for (unsigned a = 0; a < 7; a++) for (int su = 0; su < 2; su++)
		for (int z = 0; z < 4; z++)  // avail_in / avail_out zero or not
			row(q, a, (z & 1) ? 0 : 5, 0, (z & 1) ? 0 : 2, (z & 2) ? 0 : 3, 0, su, m & 1, (m >> 1) & 1, (m >> 2) & 1, !((m >> 3) & 1), (z & 1) ? 0 : 5, (z & 2) ? 0 : 7);
		return 0;
	}
	if (argc > 1 && !strcmp(argv[1], "supported")) {
		struct { const char *name; int kind; } inits[] = {
			{"easy_encoder",0},{"stream_encoder",1},{"stream_encoder_mt",2},{"alone_encoder",3},{"raw_encoder",4},
			{"block_encoder",5},{"microlzma_encoder",6},{"index_encoder",7},
			{"stream_decoder",10},{"stream_decoder_mt",11},{"auto_decoder",12},{"alone_decoder",13},{"lzip_decoder",14},
			{"raw_decoder",15},{"block_decoder",16},{"microlzma_decoder",17},{"index_decoder",18},{"file_info_decoder",19},
		};
		lzma_options_lzma ol; lzma_lzma_preset(&ol, 0);
		lzma_filter f2[2] = {{LZMA_FILTER_LZMA2, &ol}, {LZMA_VLI_UNKNOWN, NULL}};
		lzma_filter f1[2] = {{LZMA_FILTER_LZMA1, &ol}, {LZMA_VLI_UNKNOWN, NULL}};
		for (unsigned i = 0; i < sizeof inits / sizeof inits[0]; i++) {
			lzma_stream s = LZMA_STREAM_INIT; lzma_ret r = LZMA_PROG_ERROR;
			lzma_mt mt = { .threads = 2, .preset = 0, .check = LZMA_CHECK_CRC32, .memlimit_threading = UINT64_MAX, .memlimit_stop = UINT64_MAX };
			lzma_block blk; memset(&blk, 0, sizeof blk); blk.version = 0; blk.check = LZMA_CHECK_CRC32; blk.filters = f2;
			blk.compressed_size = LZMA_VLI_UNKNOWN; blk.uncompressed_size = LZMA_VLI_UNKNOWN; blk.header_size = 12;
			lzma_index *idx = lzma_index_init(NULL); lzma_index *idxp = NULL;
			switch (inits[i].kind) {
			case 0: r = lzma_easy_encoder(&s, 0, LZMA_CHECK_CRC32); break;
			case 1: r = lzma_stream_encoder(&s, f2, LZMA_CHECK_CRC32); break;
			case 2: r = lzma_stream_encoder_mt(&s, &mt); break;
			case 3: r = lzma_alone_encoder(&s, &ol); break;
			case 4: r = lzma_raw_encoder(&s, f2); break;
			case 5: r = lzma_block_encoder(&s, &blk); break;
			case 6: r = lzma_microlzma_encoder(&s, &ol); break;
			case 7: r = lzma_index_encoder(&s, idx); break;
			case 10: r = lzma_stream_decoder(&s, UINT64_MAX, 0); break;
			case 11: r = lzma_stream_decoder_mt(&s, &mt); break;
			case 12: r = lzma_auto_decoder(&s, UINT64_MAX, 0); break;
			case 13: r = lzma_alone_decoder(&s, UINT64_MAX); break;
			case 14: r = lzma_lzip_decoder(&s, UINT64_MAX, 0); break;
			case 15: r = lzma_raw_decoder(&s, f2); break;
			case 16: r = lzma_block_decoder(&s, &blk); break;
			case 17: r = lzma_microlzma_decoder(&s, 10, 10, true, 4096); break;
			case 18: r = lzma_index_decoder(&s, &idxp, UINT64_MAX); break;
			case 19: r = lzma_file_info_decoder(&s, &idxp, UINT64_MAX, 100); break;
			}
			printf("%s %d", inits[i].name, (int)r);
			for (int a = 0; a <= LZMA_ACTION_MAX; a++) printf(" %d", s.internal ? (int)s.internal->supported_actions[a] : -1);
			printf("\n");
			lzma_end(&s); lzma_index_end(idx, NULL);
		}
		return 0;
	}
	return 2;
}
