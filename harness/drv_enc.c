// Black-box encoder driver (public API).
//  enc <kind> <cfg> <mode> <seed> <filterstr|-> <hex>   -> "<ret> <hexout>"
//   kind 0 easy_encoder        cfg = preset(0-9) | extreme<<5 | check<<8
//        1 stream_encoder_mt   cfg = preset | extreme<<5 | check<<8 | (threads-1)<<12 | timeoutsel<<16 | blocksel<<20 ; filterstr optional
//        2 alone_encoder       cfg = preset | extreme<<5        (or LZMA1 options from filterstr "lzma1:...")
//        3 raw_encoder         chain from filterstr
//        4 stream_encoder      chain from filterstr, check = cfg>>8
//        5 microlzma_encoder   preset, output limit = seed (0 = generous)
//        6 stream_buffer_encode (single call, out_size = lzma_stream_buffer_bound) chain from filterstr or preset
//        7 easy_buffer_encode   (single call, out_size = bound)
//   mode 0 one call, 1 one input byte per call, 2 one output byte per call, 3 random chunks + empty calls
#include "lzma.h"
#include <stdio.h>
#include <stdlib.h>
#include <string.h>
#include <stdint.h>
#include <unistd.h>
#include "watchdog.h"
static int hexv(int c) { return c <= '9' ? c - '0' : (c | 32) - 'a' + 10; }
static uint64_t rng_s;
static uint32_t rnd(void) { rng_s = rng_s * 6364136223846793005ULL + 1442695040888963407ULL; return (uint32_t)(rng_s >> 33); }
#define OUTCAP (40u << 20)
#ifdef TUKAANI_PROJECT_XZ_VERIF
extern uint32_t lzma_verif_mf_offset_bias;
#endif
int main(void)
{
	static char line[1 << 25];
	uint8_t *in = malloc(1 << 24), *out = malloc(OUTCAP);
	while (fgets(line, sizeof line, stdin)) {
		unsigned kind, cfg, mode; unsigned long long seed; char fstr[512]; int off = 0;
		if (!strncmp(line, "bias ", 5)) {
#ifdef TUKAANI_PROJECT_XZ_VERIF
			lzma_verif_mf_offset_bias = (uint32_t)strtoul(line + 5, NULL, 10);
#endif
			printf("ok\n"); fflush(stdout); continue;
		}
		if (sscanf(line, "enc %u %u %u %llu %511s %n", &kind, &cfg, &mode, &seed, fstr, &off) < 5) { printf("ERR\n"); fflush(stdout); continue; }
		char *h = line + off; size_t n = 0;
		if (*h != '-') while (h[0] && h[1] && h[0] != '\n') { in[n++] = (uint8_t)(hexv(h[0]) << 4 | hexv(h[1])); h += 2; }
		for (char *p = fstr; *p; p++) if (*p == '+') *p = ' ';
		rng_s = seed * 2654435761u + 7;
		uint32_t preset = (cfg & 0x1F) | ((cfg >> 5) & 1 ? LZMA_PRESET_EXTREME : 0);
		lzma_check check = (lzma_check)((cfg >> 8) & 15);
		lzma_filter filters[LZMA_FILTERS_MAX + 1]; int have_f = 0;
		if (strcmp(fstr, "-")) {
			int epos = 0;
			const char *e = lzma_str_to_filters(fstr, &epos, filters, LZMA_STR_ALL_FILTERS, NULL);
			if (e) { printf("STRERR %s\n", e); fflush(stdout); continue; }
			have_f = 1;
		}
		lzma_options_lzma ol;
		lzma_stream s = LZMA_STREAM_INIT; lzma_ret r = LZMA_PROG_ERROR;
		static const uint32_t tos[4] = {0, 1, 50, 300};
		lzma_mt mt = { .flags = 0, .threads = 1 + ((cfg >> 12) & 7), .block_size = (uint64_t)((cfg >> 20) & 0xFF) * 4096,
			.timeout = tos[(cfg >> 16) & 3], .preset = preset, .filters = have_f ? filters : NULL, .check = check };
		if (kind == 6 || kind == 7) {
			size_t bound = lzma_stream_buffer_bound(n), op = 0;
			uint8_t *ob = malloc(bound ? bound : 1);
			if (kind == 7) r = lzma_easy_buffer_encode(preset, check, NULL, in, n, ob, &op, bound);
			else {
				if (!have_f) { lzma_lzma_preset(&ol, preset); filters[0].id = LZMA_FILTER_LZMA2; filters[0].options = &ol; filters[1].id = LZMA_VLI_UNKNOWN; }
				r = lzma_stream_buffer_encode(filters, check, NULL, in, n, ob, &op, bound);
			}
			printf("%d ", (int)r); if (!op) printf("-"); for (size_t i = 0; i < op; i++) printf("%02x", ob[i]); printf("\n"); fflush(stdout);
			free(ob); if (have_f) lzma_filters_free(filters, NULL); continue;
		}
		switch (kind) {
		case 0: r = lzma_easy_encoder(&s, preset, check); break;
		case 1: r = lzma_stream_encoder_mt(&s, &mt); break;
		case 2: if (have_f && filters[0].id == LZMA_FILTER_LZMA1) r = lzma_alone_encoder(&s, filters[0].options);
			else { lzma_lzma_preset(&ol, preset); r = lzma_alone_encoder(&s, &ol); } break;
		case 3: r = have_f ? lzma_raw_encoder(&s, filters) : LZMA_PROG_ERROR; break;
		case 4: r = have_f ? lzma_stream_encoder(&s, filters, check) : LZMA_PROG_ERROR; break;
		case 5: lzma_lzma_preset(&ol, preset); r = lzma_microlzma_encoder(&s, &ol); break;
		}
		if (r != LZMA_OK) { printf("%d -\n", (int)r); fflush(stdout); lzma_end(&s); if (have_f) lzma_filters_free(filters, NULL); continue; }
		if (((cfg >> 29) & 1) && (kind == 0 || kind == 1 || kind == 4)) {
			// re-initialisation history: use the encoder for a while (never finishing it cleanly),
			// then initialise it again on the same lzma_stream without lzma_end; the real run follows
			alarm(kind == 1 ? 10 : 60);
			unsigned k = 1 + rnd() % 17, style = rnd() % 3; size_t pip = 0; uint8_t tmp[4096];
			if (kind == 1 && rnd() % 2 == 0) {
				// the earlier use had other options: a smaller block size (same number of threads) or another preset
				lzma_mt m0 = mt; if (rnd() % 2) m0.block_size = 4096; else m0.preset = (mt.preset + 1) % 7;
				if (lzma_stream_encoder_mt(&s, &m0) != LZMA_OK) { printf("%d -\n", 77); fflush(stdout); lzma_end(&s); alarm(0); if (have_f) lzma_filters_free(filters, NULL); continue; }
			}
			for (unsigned c = 0; c < k; c++) {
				size_t il = style == 0 ? (n - pip) : rnd() % 3000; if (il > n - pip) il = n - pip;
				size_t ol = style == 0 ? 13 : rnd() % 4096;
				uint8_t *ib = malloc(il ? il : 1); memcpy(ib, in + pip, il);
				s.next_in = ib; s.avail_in = il; s.next_out = tmp; s.avail_out = ol;
				lzma_ret pr = lzma_code(&s, style == 0 ? LZMA_FINISH : (style == 1 && c == k - 1 ? LZMA_FULL_FLUSH : LZMA_RUN));
				pip += il - s.avail_in; free(ib);
				if (pr != LZMA_OK && pr != LZMA_BUF_ERROR) break;
			}
			if (rnd() % 3 == 0) usleep(rnd() % 400);
			if (kind == 1 && rnd() % 4 == 0) { lzma_mt m2 = mt; m2.threads = 1 + (mt.threads % 6); r = lzma_stream_encoder_mt(&s, &m2); if (r == LZMA_OK) { /* and back */ } }
			switch (kind) {
			case 0: r = lzma_easy_encoder(&s, preset, check); break;
			case 1: r = lzma_stream_encoder_mt(&s, &mt); break;
			case 4: r = lzma_stream_encoder(&s, filters, check); break;
			}
			if (r != LZMA_OK) { printf("%d -\n", (int)r); fflush(stdout); lzma_end(&s); alarm(0); if (have_f) lzma_filters_free(filters, NULL); continue; }
		}
		size_t ip = 0, op = 0; unsigned calls = 0; int finishing = 0, stall = 0; int prog_ok = 1; uint64_t last_pi = 0, last_po = 0;
		unsigned abort_after = (kind == 1 && (cfg >> 28) & 1) ? 1 + (unsigned)(seed % 23) : 0;
		alarm(kind == 1 ? 10 : 60);
		size_t outlimit = (kind == 5 && seed) ? (size_t)seed : OUTCAP;
		if (abort_after) {
			// hand everything to the workers with LZMA_FULL_BARRIER (returns as soon as the input is taken),
			// wait a pseudo-random moment, then free the encoder while the workers may be in their last chunk
			uint8_t *ib = malloc(n ? n : 1), *ob = malloc(1 << 20); memcpy(ib, in, n);
			s.next_in = ib; s.avail_in = n; s.next_out = ob; s.avail_out = 1 << 20;
			r = lzma_code(&s, LZMA_FULL_BARRIER);
			usleep(rnd() % (abort_after * 150));
			free(ib); free(ob);
			printf("%d - P1\n", 55); fflush(stdout);
			lzma_end(&s); alarm(0); if (have_f) lzma_filters_free(filters, NULL);
			continue;
		}
		while (1) {
			size_t il, ol_;
			switch (mode) {
			case 0: il = n - ip; ol_ = outlimit - op; break;
			case 1: il = (n - ip) ? 1 : 0; ol_ = outlimit - op; break;
			case 2: il = n - ip; ol_ = 1; break;
			default: il = rnd() % 7 == 0 ? 0 : rnd() % 2000; ol_ = rnd() % 7 == 0 ? 0 : rnd() % 1500;
			         if (rnd() % 11 == 0) il = n; if (rnd() % 13 == 0) ol_ = 1 << 20; break;
			}
			if (kind == 5) { il = n - ip; }      // MicroLZMA: everything at once, LZMA_FINISH only
			if (il > n - ip || finishing) il = n - ip;
			if (ol_ > outlimit - op) ol_ = outlimit - op;
			uint8_t *ib = malloc(il ? il : 1), *ob = malloc(ol_ ? ol_ : 1);
			memcpy(ib, in + ip, il);
			s.next_in = ib; s.avail_in = il; s.next_out = ob; s.avail_out = ol_;
			lzma_action a = (ip + il == n) ? LZMA_FINISH : LZMA_RUN;
			if (a == LZMA_FINISH) finishing = 1;
			r = lzma_code(&s, a);
			size_t di = il - s.avail_in, dd = ol_ - s.avail_out;
			memcpy(out + op, ob, dd); ip += di; op += dd; calls++;
			free(ib); free(ob);
			if (kind == 1) { uint64_t pi, po; lzma_get_progress(&s, &pi, &po);
				if (pi > ip || po > ((r == LZMA_STREAM_END) ? op : op + (64u << 20)) || pi < last_pi || po < last_po) prog_ok = 0;
				if (r == LZMA_STREAM_END && (pi != ip || po != op)) prog_ok = 0;
				last_pi = pi; last_po = po; }
			if (abort_after && calls >= abort_after) { r = (lzma_ret)55; break; }
			if (r == LZMA_BUF_ERROR) { if (++stall > 50) break; continue; }
			if (r != LZMA_OK) break;
			if (calls > 80000000) { r = 99; break; }
		}
		printf("%d ", (int)r);
		if (kind == 5) printf("%llu ", (unsigned long long)s.total_in);
		if (!op) printf("-"); for (size_t i = 0; i < op; i++) printf("%02x", out[i]);
		if (kind == 1) printf(" P%d", prog_ok);
		printf("\n"); fflush(stdout);
		lzma_end(&s); alarm(0); if (have_f) lzma_filters_free(filters, NULL);
	}
	free(in); free(out);
	return 0;
}
